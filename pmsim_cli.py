#!/venv/bin/python
"""Command-line entry of pmsim (see DESIGN.md).

  pmsim_cli.py check <ID> [--tier quick|thorough]     honours VERIF_SEED, VERIF_TIER
  pmsim_cli.py replay <replay.json>
  pmsim_cli.py selftest [--size short|long]
"""
import os
import sys

_WANT = os.environ.get("PMSIM_DRIVER_HASHSEED", "0")
if os.environ.get("PYTHONHASHSEED") != _WANT:
    # the driver's own choices must not depend on hash randomisation (the
    # self-test deliberately runs one driver under another value)
    os.environ["PYTHONHASHSEED"] = _WANT
    os.execv(sys.executable, [sys.executable] + sys.argv)

sys.path.insert(0, os.path.dirname(os.path.abspath(__file__)))
sys.dont_write_bytecode = True

from pmsim import driver  # noqa: E402

if __name__ == "__main__":
    sys.exit(driver.main(sys.argv[1:]))
