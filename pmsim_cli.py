#!/venv/bin/python
"""Command-line entry of pmsim (see DESIGN.md).

  pmsim_cli.py check <ID> [--tier quick|thorough]     honours VERIF_SEED, VERIF_TIER
  pmsim_cli.py replay <replay.json>
  pmsim_cli.py selftest [--size short|long]
"""
import os
import sys

if os.environ.get("PYTHONHASHSEED") != "0":
    # the driver's own choices must not depend on hash randomisation
    os.environ["PYTHONHASHSEED"] = "0"
    os.execv(sys.executable, [sys.executable] + sys.argv)

sys.path.insert(0, os.path.dirname(os.path.abspath(__file__)))
sys.dont_write_bytecode = True

from pmsim import driver  # noqa: E402

if __name__ == "__main__":
    sys.exit(driver.main(sys.argv[1:]))
