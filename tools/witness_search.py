#!/venv/bin/python
"""Witness search for C13: which (predecessor, abort point, follower, configuration)
makes a dropped per-file reset observable?

A scratch worktree of /repo gets the starting_new_file body of the listed rules
replaced by `pass` (all at once); explicit chains  a(t) f1 a(t) f2 ...  are then run
for every carrier a, every abort ordinal t (token and line dispatch) and every
first-construct follower f, under the three chain configurations.  Every follower
whose output differs from its solo run is a witness; the rule id in the differing
lines says whose stale field it is.  The witnesses found here are what the
`witness` chains of C13's plan (carriers.WITNESS_CHAINS) are made of.

usage: witness_search.py --rules md014,md019,... [--preds a,b,c] [--configs default,optional,sensitive] [--plain]
Writes /verif/tools/witness_search_results.json
"""
import collections
import json
import os
import re
import subprocess
import sys
import time

TREE = "/tmp/pmsim-witness-tree"
WIDTH = 21
sys.path.insert(0, "/verif")
sys.path.insert(0, "/verif/tools")


def drop_resets(rules):
    import reset_campaign

    subprocess.run(["git", "-C", "/repo", "worktree", "remove", "--force", TREE], capture_output=True)
    subprocess.run(["git", "-C", "/repo", "worktree", "add", "-q", TREE, "HEAD"], check=True)
    for rule in rules:
        match = re.match(r"([a-z]+)(\d+)", rule)
        name = "rule_%s_%s.py" % (match.group(1), match.group(2))
        path = os.path.join(TREE, "pymarkdown", "plugins", name)
        mutants = list(reset_campaign.mutants_for(path, False))
        if not mutants:
            print("no starting_new_file body in", name)
            continue
        open(path, "w").write(mutants[0][1])


def arg(name, default=None):
    return sys.argv[sys.argv.index(name) + 1] if name in sys.argv else default


def main():
    rules = arg("--rules").split(",")
    configs = arg("--configs", "default,optional,sensitive").split(",")
    drop_resets(rules)
    os.environ["PMSIM_REPO"] = TREE
    try:
        from pmsim import carriers, corpus, pool

        docs = corpus.load()
        usable = corpus.usable(docs, avoid=("hang", "parse_error", "undecodable", "slow", "plugin_error"))
        preds = [n for n in usable if n in carriers.CARRIERS and docs[n].tags.get("lines", 0) < 60]
        if arg("--preds"):
            preds = arg("--preds").split(",")
        followers = ["%" + name for name in sorted(carriers.FIRST_CONSTRUCT)]
        if arg("--followers"):
            followers = arg("--followers").split(",")
        tasks = []
        for config in configs:
            for a_name in preds:
                lines = max(1, docs[a_name].tags.get("lines", 1))
                if "--plain" in sys.argv:
                    for start in range(0, len(followers), WIDTH):
                        tasks.append((("scan", a_name, followers[start : start + WIDTH], False, None), config))
                    continue
                for phase, span in (("token", min(70, lines * 5 + 3)), ("line", min(60, lines + 1))):
                    for ordinal in range(1, span + 1):
                        for start in range(0, len(followers), WIDTH):
                            tasks.append((("scan", a_name, followers[start : start + WIDTH], False, ("at", phase, ordinal)), config))
        print("tasks:", len(tasks), flush=True)
        started = time.time()
        results, capped = pool.run_parallel("pmsim.checks.c13", "witness_task", tasks, wall_cap=int(arg("--wall", "7000")))
        witnesses = []
        harness = 0
        for (entry, config), outcome in results:
            if "harness" in outcome:
                harness += 1
                continue
            for violation in outcome["ok"]["violations"]:
                detail = violation["detail"]
                got, want = detail.get("got"), detail.get("want")
                ids = set()
                if isinstance(got, dict):
                    lines = set(got.get("fail", [])) ^ set(want.get("fail", []))
                    ids = {m.group(1) for line in lines for m in [re.search(r": ([A-Z]+\d+): ", line)] if m}
                    if got.get("err0") != want.get("err0"):
                        ids.add("ERR:" + " ".join(got.get("err0") or [])[:80])
                witnesses.append({"config": config, "pred": entry[1], "cut": entry[4], "follower": detail.get("document"), "key": violation["key"], "ids": sorted(ids)})
        by_id = collections.defaultdict(list)
        for witness in witnesses:
            for rule_id in witness["ids"] or ["?"]:
                by_id[rule_id].append(witness)
        print("done in %.0fs capped=%s harness=%d witnesses=%d" % (time.time() - started, capped, harness, len(witnesses)))
        for rule_id in sorted(by_id):
            sample = by_id[rule_id]
            print(rule_id, len(sample), "e.g.", json.dumps(sample[0]))
        out = arg("--out", "/verif/tools/witness_search_results.json")
        with open(out, "w") as handle:
            json.dump({"rules": rules, "tasks": len(tasks), "witnesses": witnesses}, handle, indent=0)
    finally:
        subprocess.run(["git", "-C", "/repo", "worktree", "remove", "--force", TREE], capture_output=True)


if __name__ == "__main__":
    main()
