#!/venv/bin/python
"""C13 sensitivity campaign: drop the per-file reset of one rule at a time.

For every built-in rule that defines starting_new_file, a scratch worktree of
/repo gets that method's body replaced by `pass` (all per-file fields keep the
values of the previous document); C13's exhaustive carrier-pair chains are then
run against the scratch tree.  A rule whose dropped reset is NOT detected points
at a blind spot of the document pool (or at a reset that is redundant).

usage: reset_campaign.py [--rules md024,md025] [--each]   (--each: one assignment at a time)
Writes /verif/tools/reset_campaign_results.json
"""
import ast
import glob
import json
import os
import re
import shutil
import subprocess
import sys
import time

TREE = "/tmp/pmsim-reset-tree"
OUT = "/tmp/pmsim-reset-out"


def mutants_for(path, each):
    source = open(path).read()
    module = ast.parse(source)
    lines = source.split("\n")
    for node in ast.walk(module):
        if isinstance(node, ast.FunctionDef) and node.name == "starting_new_file":
            body = [n for n in node.body if not (isinstance(n, ast.Expr) and isinstance(getattr(n, "value", None), ast.Constant))]
            if not body:
                return
            indent = " " * body[0].col_offset
            if each:
                for stmt in body:
                    new = lines[: stmt.lineno - 1] + [indent + "pass"] + lines[stmt.end_lineno :]
                    yield "line%d" % stmt.lineno, "\n".join(new), "\n".join(lines[stmt.lineno - 1 : stmt.end_lineno]).strip()
            else:
                new = lines[: body[0].lineno - 1] + [indent + "pass"] + lines[body[-1].end_lineno :]
                yield "all", "\n".join(new), "whole body (%d statements)" % len(body)


def main():
    each = "--each" in sys.argv
    only = None
    if "--rules" in sys.argv:
        only = set(sys.argv[sys.argv.index("--rules") + 1].split(","))
    results = []
    rule_files = sorted(glob.glob("/repo/pymarkdown/plugins/rule_*.py"))
    for rule_file in rule_files:
        rule = re.sub(r"rule_(\w+?)_(\d+)\.py", r"\1\2", os.path.basename(rule_file))
        if only and rule not in only:
            continue
        for label, mutated, what in mutants_for(rule_file, each):
            subprocess.run(["git", "-C", "/repo", "worktree", "remove", "--force", TREE], capture_output=True)
            subprocess.run(["git", "-C", "/repo", "worktree", "add", "-q", TREE, "HEAD"], check=True)
            try:
                target = os.path.join(TREE, "pymarkdown", "plugins", os.path.basename(rule_file))
                open(target, "w").write(mutated)
                shutil.rmtree(OUT, ignore_errors=True)
                started = time.time()
                env = dict(os.environ, PMSIM_REPO=TREE, PMSIM_OUT=OUT)
                if "--first" in sys.argv:
                    env["PMSIM_STOP_AT_FIRST"] = "1"
                proc = subprocess.run(["/venv/bin/python", "/verif/pmsim_cli.py", "check", "C13", "--tier", "quick"], env=env, capture_output=True, text=True)
                keys = sorted(set(re.findall(r"key=(\S+)", proc.stdout)))
                occurrences = sum(int(n) for n in re.findall(r"occurrences=(\d+)", proc.stdout))
                results.append({"rule": rule, "mutant": label, "dropped": what, "detected": proc.returncode == 1, "exit": proc.returncode, "keys": keys, "scenarios_violating": occurrences, "wall_s": round(time.time() - started, 1)})
                print(json.dumps(results[-1]), flush=True)
            finally:
                subprocess.run(["git", "-C", "/repo", "worktree", "remove", "--force", TREE], capture_output=True)
                shutil.rmtree(OUT, ignore_errors=True)
    with open(sys.argv[sys.argv.index("--out") + 1] if "--out" in sys.argv else "/verif/tools/reset_campaign_results.json", "w") as handle:
        json.dump(results, handle, indent=1)
    missed = [r for r in results if not r["detected"]]
    print("campaign: %d mutants, %d detected, missed: %s" % (len(results), len(results) - len(missed), [(r["rule"], r["mutant"]) for r in missed]))


if __name__ == "__main__":
    main()
