#!/venv/bin/python
"""Sensitivity experiments (DESIGN.md section 11 step 6).

Applies one textual change at a time to a scratch git worktree of /repo
(outside /repo and /verif), optionally confirms that the repository's own test
suite still passes, runs the quick tier of the named check against that tree
(PMSIM_REPO) and records whether a violation of that property was reported.
Nothing is written to /repo; evidence/replays of these runs go to a scratch dir.

usage: mutation_check.py [--suite] [--only ID,...]
"""
import json
import os
import re
import shutil
import subprocess
import sys
import time

MUTANTS = [
    # id, property, file, old, new, note
    ("own-c13-lrd-reset", "C13", "pymarkdown/general/tokenized_markdown.py", "            LinkParseHelper.initialize()\n", "            pass\n", "link definitions survive into the next document"),
    ("own-c13-md024-reset", "C13", "pymarkdown/plugins/rule_md_024.py", None, None, "dropped reset in MD024.starting_new_file"),
    ("own-c13-pragmas", "C13", "pymarkdown/plugin_manager/plugin_manager.py", "        self.__document_pragmas = {}\n        self.__document_pragma_ranges = []\n\n        for next_plugin in self.__enabled_plugins_for_starting_new_file:", "        for next_plugin in self.__enabled_plugins_for_starting_new_file:", "pragmas of the previous document stay active"),
    ("own-c15-swallow", "C15", "pymarkdown/file_scan_helper.py", "                if not did_succeed:\n                    did_fail_any_file = True", "                if not did_succeed and not self.__continue_on_error:\n                    did_fail_any_file = True", "continue-on-error run ends with a clean result"),
    ("own-c15-direct-write", "C15", "pymarkdown/file_scan_helper.py", "            os.replace(working_file, actual_file)", "            shutil.copyfile(working_file, actual_file)\n            os.remove(working_file)", "write-back truncates the target again"),
    ("own-c15-no-cleanup", "C15", "pymarkdown/file_scan_helper.py", "            for next_temporary_file in temporary_files:\n                if os.path.exists(next_temporary_file):\n                    os.remove(next_temporary_file)", "            pass", "temp files left after a failure"),
    ("own-c15-decode", "C15", "pymarkdown/file_scan_helper.py", "        except UnicodeDecodeError as this_exception:\n            self.__handle_scan_error(next_file, this_exception, allow_shortcut=True)\n        return False", "        return False", "undecodable file no longer handled per file (scan)"),
    ("own-c10-and", "C10", "pymarkdown/file_scan_helper.py", "did_anything_get_fixed = did_any_lines_get_fixed or did_any_tokens_get_fixed", "did_anything_get_fixed = did_any_lines_get_fixed and did_any_tokens_get_fixed", "or -> and in the fixed bookkeeping"),
    ("own-c10-stdin-temp", "C10", "pymarkdown/file_scan_helper.py", "            if temporary_file and os.path.exists(temporary_file):\n                os.remove(temporary_file)", "            pass", "stdin spool file not removed"),
    ("own-c10-loghandler", "C10", "pymarkdown/application_logging.py", "            logging.getLogger().removeHandler(self.__new_handler)\n", "", "log handler stays attached"),
    ("own-c14-offbyone", "C14", "pymarkdown/file_scan_helper.py", "        line_number, next_line = 1, source_provider.get_next_line()", "        line_number, next_line = 0, source_provider.get_next_line()", "line numbers start at 0"),
    ("own-c14-start-twice", "C14", "pymarkdown/plugin_manager/plugin_manager.py", "            if (\n                constraint_id_list is not None\n                and next_plugin.plugin_id not in constraint_id_list\n            ):\n                continue", "            if constraint_id_list and next_plugin.plugin_id not in constraint_id_list:\n                continue", "empty constraint list broadcasts START to everybody again"),
    ("own-c14-skip-complete", "C14", "pymarkdown/file_scan_helper.py", "        POGGER.info(\"Completed scanning lines in file '$'.\", next_file_name)\n        self.__plugins.completed_file(context, line_number, context_map)", "        POGGER.info(\"Completed scanning lines in file '$'.\", next_file_name)\n        if line_number > 2:\n            self.__plugins.completed_file(context, line_number, context_map)", "completed_file skipped for one-line files"),
    ("own-c16-rstrip", "C16", "pymarkdown/file_scan_helper.py", "                    for line in sys.stdin:\n                        outfile.write(line)", "                    for line in sys.stdin:\n                        outfile.write(line.rstrip(\" \") if not line.endswith(\"\\n\") else line)", "trailing spaces of an unterminated last stdin line are dropped"),
    ("own-c16-encoding", "C16", "pymarkdown/file_scan_helper.py", "                \"wt\", encoding=\"utf-8\", delete=False\n", "                \"wt\", delete=False\n", "spool encoding follows the locale again"),
    ("own-c16-api-flag", "C16", "pymarkdown/api.py", "        if self.__enable_strict_configuration:\n            common_arguments.append(\"--strict-config\")", "        if self.__enable_strict_configuration and action_to_invoke != \"scan-stdin\":\n            common_arguments.append(\"--strict-config\")", "API forgets a flag on the scan_string path (no visible effect expected unless config is bad)"),
    ("own-c18-table", "C18", "pymarkdown/return_code_helper.py", "            ApplicationResult.NO_FILES_TO_SCAN: 0,\n            ApplicationResult.COMMAND_LINE_ERROR: 2,\n            ApplicationResult.FIXED_AT_LEAST_ONE_FILE: 0,", "            ApplicationResult.NO_FILES_TO_SCAN: 0,\n            ApplicationResult.COMMAND_LINE_ERROR: 2,\n            ApplicationResult.FIXED_AT_LEAST_ONE_FILE: 3,", "minimal scheme returns 3 for fixed"),
    ("own-c18-precedence", "C18", "pymarkdown/main.py", "            if did_fail_any_file:\n                scan_result = ApplicationResult.SYSTEM_ERROR\n            elif did_fix_any_files:\n                scan_result = ApplicationResult.FIXED_AT_LEAST_ONE_FILE", "            if did_fix_any_files:\n                scan_result = ApplicationResult.FIXED_AT_LEAST_ONE_FILE\n            elif did_fail_any_file:\n                scan_result = ApplicationResult.SYSTEM_ERROR", "fixed masks an application error"),
    ("own-c18-scheme-config", "C18", "pymarkdown/return_code_helper.py", "        if scheme_to_use is None:\n            scheme_to_use = properties.get_string_property(", "        if scheme_to_use is None and False:\n            scheme_to_use = properties.get_string_property(", "scheme from configuration ignored"),
    ("own-c19-sorted", "C19", "pymarkdown/application_file_scanner.py", "        for next_file in sorted(files_to_parse):", "        for next_file in files_to_parse:", "selection no longer sorted"),
    ("own-c19-recurse", "C19", "pymarkdown/application_file_scanner.py", "            if not recurse_directories and normalized_root != normalized_next_path:", "            if recurse_directories and normalized_root != normalized_next_path:", "inverted recurse test"),
    ("own-c19-endswith", "C19", "pymarkdown/application_file_scanner.py", "            path_to_test.endswith(next_extension)", "            next_extension in path_to_test", "extension matched anywhere in the path"),
    ("own-c07-sort-failures", "C07", "pymarkdown/plugin_manager/plugin_scan_context.py", "        reported_and_sorted = sorted(self.__reported)", "        reported_and_sorted = list(self.__reported)", "failures printed in dispatch order"),
    ("own-c07-plugin-order", "C07", "pymarkdown/plugin_manager/plugin_manager.py", "        self.__enabled_plugins = sorted(\n            self.__enabled_plugins, reverse=False, key=lambda plugin: plugin.plugin_id\n        )", "        pass", "dispatch order follows directory listing order"),
    ("own-c07-wrapper", "C07", "pymarkdown/plugin_manager/plugin_manager.py", None, None, "next_token wrapper only catches AssertionError"),
]


def apply(tree, mutant):
    mid, prop, rel, old, new, note = mutant
    path = os.path.join(tree, rel)
    text = open(path).read()
    if mid == "own-c13-md024-reset":
        match = re.search(r"    def starting_new_file\(self\) -> None:\n(?:        .*\n|\n)+?(?=    def )", text)
        body = match.group(0)
        lines = body.split("\n")
        # drop the first assignment statement of the reset
        for i, line in enumerate(lines):
            if line.strip().startswith("self.") and "=" in line:
                lines[i] = "        pass"
                break
        text = text.replace(body, "\n".join(lines))
    elif mid == "own-c07-wrapper":
        old = "                next_plugin.plugin_instance.next_token(context, token)\n            except Exception as this_exception:"
        new = "                next_plugin.plugin_instance.next_token(context, token)\n            except AssertionError as this_exception:"
        assert old in text
        text = text.replace(old, new)
    else:
        assert old in text, "pattern not found for %s" % mid
        text = text.replace(old, new, 1)
    open(path, "w").write(text)


def main():
    args = sys.argv[1:]
    suite = "--suite" in args
    only = None
    if "--only" in args:
        only = set(args[args.index("--only") + 1].split(","))
    out_dir = "/tmp/pmsim-mut-out"
    results = []
    for mutant in MUTANTS:
        mid, prop = mutant[0], mutant[1]
        if only and mid not in only:
            continue
        tree = "/tmp/pmsim-mut-tree"
        subprocess.run(["git", "-C", "/repo", "worktree", "remove", "--force", tree], capture_output=True)
        subprocess.run(["git", "-C", "/repo", "worktree", "add", "-q", tree, "HEAD"], check=True)
        try:
            apply(tree, mutant)
            suite_ok = None
            if suite:
                proc = subprocess.run(["/venv/bin/python", "-m", "pytest", "-q", "-p", "no:cacheprovider", "-n", "12", "-q"], cwd=tree, env=dict(os.environ, PYTHONPATH=tree), capture_output=True, text=True)
                failed = [l for l in proc.stdout.splitlines() if l.startswith("FAILED")]
                suite_ok = all("bad_config_file" in l for l in failed)
            shutil.rmtree(out_dir, ignore_errors=True)
            started = time.time()
            env = dict(os.environ, PMSIM_REPO=tree, PMSIM_OUT=out_dir)
            proc = subprocess.run(["/venv/bin/python", "/verif/pmsim_cli.py", "check", prop, "--tier", "quick"], env=env, capture_output=True, text=True)
            keys = re.findall(r"key=(\S+)", proc.stdout)
            violations = [l for l in proc.stdout.splitlines() if l.startswith("VIOLATION")]
            results.append({"id": mid, "property": prop, "note": mutant[5], "suite_passes": suite_ok, "exit": proc.returncode, "violations": len(violations), "keys": sorted(set(k for k in keys if not k.startswith(("C15/reported:file-not-named|p", "C07/unique", "C10/changed-without-fixable-failure|input=has-pragma", "C18/exit-code|no_files|default|dir", "C19/no-files-result")))), "wall_s": round(time.time() - started, 1)})
            print(json.dumps(results[-1]), flush=True)
        finally:
            subprocess.run(["git", "-C", "/repo", "worktree", "remove", "--force", tree], capture_output=True)
            shutil.rmtree(out_dir, ignore_errors=True)
    with open("/verif/tools/mutation_results.json", "w") as handle:
        json.dump(results, handle, indent=1)


if __name__ == "__main__":
    main()
