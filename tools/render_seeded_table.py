#!/venv/bin/python
"""Rewrites appendix A of DESIGN.md from /verif/seeded/*/meta.json and tools/mutation_results.json."""
import glob
import json
import os

rows = []
for path in sorted(glob.glob("/verif/seeded/*/meta.json")):
    meta = json.load(open(path))
    caught = []
    missed = []
    for check, info in sorted(meta.get("detections", {}).items()):
        (caught if info["exit"] == 1 else missed).append(check + ("" if info.get("tier", "quick") == "quick" else " (thorough)"))
    rows.append("| %s | %s | %s | %s | %s |" % (meta["id"], meta["property"], meta.get("needs_to_manifest", "").replace("|", "/"), ", ".join(caught) or "-", ", ".join(missed) or "-"))
own = []
results = "/verif/tools/mutation_results.json"
if os.path.exists(results):
    for item in json.load(open(results)):
        own.append("| %s | %s | %s | %s |" % (item["id"], item["property"], item["note"], "caught (%s)" % ", ".join(k.split("|")[0] for k in item["keys"][:2]) if item["exit"] == 1 else "not caught"))
text = ["", "## Appendix A. Seeded changes and which check catches them", "",
        "Independent changes (written by sub-agents that saw only the property text and a scratch worktree; each confirmed by me: suite passes with it, demonstration fails with it and passes without it). `caught by` = quick tier of that check run against the changed tree (`PMSIM_REPO`) exits 1 with a VIOLATION line.", "",
        "| id | property | what it needs to manifest / how it was caught | caught by | run but not caught by |", "|---|---|---|---|---|"] + rows
if own:
    text += ["", "Own sensitivity experiments (`tools/mutation_check.py`, one textual change each, taken from the **M** lists of section 4):", "", "| id | property | change | quick tier |", "|---|---|---|---|"] + own
campaign = "/verif/tools/reset_campaign_results.json"
if os.path.exists(campaign):
    data = json.load(open(campaign))
    detected = [r for r in data if r["detected"]]
    text += ["", "Reset-drop campaign (`tools/reset_campaign.py`): for each built-in rule, `starting_new_file` replaced by `pass`, C13's exhaustive carrier-pair chains run against it: %d of %d dropped resets detected.  Not detected: %s." % (len(detected), len(data), ", ".join(r["rule"] for r in data if not r["detected"]) or "none")]
design = open("/verif/DESIGN.md").read()
marker = "\n## Appendix A. Seeded changes"
if marker in design:
    design = design[: design.index(marker)]
open("/verif/DESIGN.md", "w").write(design.rstrip("\n") + "\n" + "\n".join(text) + "\n")
print("appendix A: %d seeded, %d own" % (len(rows), len(own)))
