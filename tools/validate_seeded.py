#!/venv/bin/python
"""Confirm a sub-agent's seeded change and record it under /verif/seeded/<id>/.

usage: validate_seeded.py <worktree> <id> <property> [--checks C10,C15] [--tier quick]

Confirms, in the scratch worktree (never in /repo):
  * the repository's test suite passes with the change (baseline always-fail test aside)
  * DEMO.py fails with the change and passes without it (git stash)
then runs the named checks against the worktree (PMSIM_REPO) and records what
they reported.  Writes patch.diff, DEMO.py, MUTANT.md, meta.json.
"""
import json
import os
import re
import shutil
import subprocess
import sys
import time


def sh(cmd, cwd=None, env=None, timeout=3000):
    return subprocess.run(cmd, cwd=cwd, env=env, capture_output=True, text=True, timeout=timeout, shell=isinstance(cmd, str))


def main():
    tree, mid, prop = sys.argv[1:4]
    checks = [prop]
    tier = "quick"
    if "--checks" in sys.argv:
        checks = sys.argv[sys.argv.index("--checks") + 1].split(",")
    if "--tier" in sys.argv:
        tier = sys.argv[sys.argv.index("--tier") + 1]
    dest = os.path.join("/verif/seeded", mid)
    os.makedirs(dest, exist_ok=True)
    env = dict(os.environ, PYTHONPATH=tree)
    patch = sh(["git", "-C", tree, "diff", "--", "pymarkdown"]).stdout
    assert patch.strip(), "no change in worktree"
    open(os.path.join(dest, "patch.diff"), "w").write(patch)
    for name in ("DEMO.py", "MUTANT.md"):
        if os.path.exists(os.path.join(tree, name)):
            shutil.copy(os.path.join(tree, name), os.path.join(dest, name))
    ran = []
    # 1. suite with the change
    proc = sh(["/venv/bin/python", "-m", "pytest", "-q", "-p", "no:cacheprovider", "--timeout=900", "-n", "12"], cwd=tree, env=env)
    failed = [l for l in proc.stdout.splitlines() if l.startswith("FAILED")]
    suite_ok = all("bad_config_file" in l for l in failed) and bool(re.search(r"\b8\d\d\d passed", proc.stdout))
    tail = [l for l in proc.stdout.splitlines() if "passed" in l or "failed" in l][-1:] or proc.stdout.splitlines()[-1:]
    ran.append({"cmd": "pytest -n 12 (worktree, with change)", "failed": failed, "summary": tail})
    # 2. demo with / without
    with_change = sh(["/venv/bin/python", "DEMO.py"], cwd=tree, env=env, timeout=900)
    # (git stash is shared between the worktrees of one repository: reverse-apply instead)
    patch_file = os.path.join(dest, "patch.diff")
    assert sh(["git", "-C", tree, "apply", "-R", patch_file]).returncode == 0, "cannot reverse the change"
    assert not sh(["git", "-C", tree, "diff", "--", "pymarkdown"]).stdout.strip()
    without = sh(["/venv/bin/python", "DEMO.py"], cwd=tree, env=env, timeout=900)
    assert sh(["git", "-C", tree, "apply", patch_file]).returncode == 0, "cannot re-apply the change"
    assert sh(["git", "-C", tree, "diff", "--", "pymarkdown"]).stdout == patch, "re-apply did not restore the change"
    ran.append({"cmd": "DEMO.py with change", "exit": with_change.returncode, "tail": with_change.stdout[-400:]})
    ran.append({"cmd": "DEMO.py without change (git apply -R)", "exit": without.returncode, "tail": without.stdout[-200:]})
    demo_ok = with_change.returncode != 0 and without.returncode == 0
    # 3. checks against the worktree
    detections = {}
    for check in checks:
        out_dir = "/tmp/pmsim-seeded-out"
        shutil.rmtree(out_dir, ignore_errors=True)
        started = time.time()
        proc = sh(["/venv/bin/python", "/verif/pmsim_cli.py", "check", check, "--tier", tier], env=dict(os.environ, PMSIM_REPO=tree, PMSIM_OUT=out_dir))
        lines = proc.stdout.splitlines()
        keys = []
        for i, line in enumerate(lines):
            if line.startswith("VIOLATION") and i + 1 < len(lines):
                match = re.search(r"key=(\S+)", lines[i + 1])
                if match:
                    keys.append(match.group(1))
        detections[check] = {"exit": proc.returncode, "violation_keys": keys, "wall_s": round(time.time() - started, 1), "tier": tier}
        shutil.rmtree(out_dir, ignore_errors=True)
    meta_path = os.path.join(dest, "meta.json")
    meta = {}
    if os.path.exists(meta_path):
        meta = json.load(open(meta_path))
    meta.update(
        {
            "id": mid,
            "property": prop,
            "source": "independent sub-agent given only the property text and a scratch worktree",
            "suite_passes_with_change": suite_ok,
            "demo_fails_with_change_and_passes_without": demo_ok,
            "confirmed": bool(suite_ok and demo_ok),
            "what_i_ran": ran,
        }
    )
    meta.setdefault("detections", {}).update(detections)
    json.dump(meta, open(meta_path, "w"), indent=1)
    print(json.dumps({"id": mid, "suite_ok": suite_ok, "demo_ok": demo_ok, "detections": detections}, indent=1))


if __name__ == "__main__":
    main()
