#!/venv/bin/python
"""Re-run the detecting check(s) against recorded seeded changes (regression of the
checks' sensitivity after the machinery changed).

usage: recheck_seeded.py m14a,m14b,... [--checks C14]   (default: the checks meta.json lists as detecting)
Scratch worktree under /tmp, removed afterwards; nothing is written to /verif/evidence.
"""
import json
import os
import shutil
import subprocess
import sys

TREE = "/tmp/pmsim-recheck-tree"
OUT = "/tmp/pmsim-recheck-out"


def main():
    ids = sys.argv[1].split(",")
    forced = sys.argv[sys.argv.index("--checks") + 1].split(",") if "--checks" in sys.argv else None
    summary = []
    for mid in ids:
        base = os.path.join("/verif/seeded", mid)
        meta = json.load(open(os.path.join(base, "meta.json")))
        checks = forced or sorted(c for c, d in (meta.get("detections") or {}).items() if d.get("exit") == 1) or [meta["property"]]
        subprocess.run(["git", "-C", "/repo", "worktree", "remove", "--force", TREE], capture_output=True)
        subprocess.run(["git", "-C", "/repo", "worktree", "add", "-q", "--detach", TREE, "HEAD"], check=True)
        try:
            applied = subprocess.run(["git", "-C", TREE, "apply", os.path.join(base, "patch.diff")], capture_output=True, text=True)
            if applied.returncode != 0:
                print(mid, "PATCH DOES NOT APPLY", applied.stderr[:200], flush=True)
                continue
            for check in checks:
                shutil.rmtree(OUT, ignore_errors=True)
                env = dict(os.environ, PMSIM_REPO=TREE, PMSIM_OUT=OUT)
                proc = subprocess.run(["/venv/bin/python", "/verif/pmsim_cli.py", "check", check, "--tier", "quick"], env=env, capture_output=True, text=True)
                keys = sorted({line.split("key=")[1].split()[0] for line in proc.stdout.splitlines() if "key=" in line})
                summary.append((mid, check, proc.returncode, keys[:4]))
                print(mid, check, "exit=%d" % proc.returncode, keys[:4], flush=True)
        finally:
            subprocess.run(["git", "-C", "/repo", "worktree", "remove", "--force", TREE], capture_output=True)
            shutil.rmtree(OUT, ignore_errors=True)
    missed = [s for s in summary if s[2] != 1]
    print("rechecked %d, not detected: %s" % (len(summary), missed))


if __name__ == "__main__":
    main()
