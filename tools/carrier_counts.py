#!/venv/bin/python
"""Counts, for every hand-written carrier document, how many tokens and lines the rule
engine dispatches for it (dry run with the recording probe): /verif/corpus/carrier_counts.json.
C13's plan uses the table to enumerate every abort ordinal of a carrier; a stale entry only
makes some ordinals wrap around (chain_from_entry), it cannot cause a verdict."""
import json
import sys

sys.path.insert(0, "/verif")
from pmsim import carriers, corpus, workload  # noqa: E402
from pmsim.common import NEUTRAL_WORLD, cached_run, done  # noqa: E402

docs = corpus.load()
table = {}
for name in sorted(carriers.CARRIERS):
    if name not in docs:
        continue
    flags = ["--continue-on-error", "-e", "md002,md006,pml100,pml101"] + workload.probe_flags(["zzz999"])
    request = {
        "files": workload.files_to_spec({"f000.md": docs[name].data}),
        "world": dict(NEUTRAL_WORLD),
        "cpu": 60,
        "ops": [{"kind": "cli", "argv": flags + ["scan", "f000.md"]}],
        "record_sites": True,
    }
    reply = cached_run(request, (0, "utf8"))
    if not done(reply):
        continue
    counts = {"token": 0, "line": 0}
    for site in reply["result"]["sites"]:
        if site[1] == "f000.md" and site[0] == "cb/zzz999/next_token":
            counts["token"] = max(counts["token"], site[2])
        if site[1] == "f000.md" and site[0] == "cb/zzz999/next_line":
            counts["line"] = max(counts["line"], site[2])
    table[name] = counts
with open("/verif/corpus/carrier_counts.json", "w") as handle:
    json.dump(table, handle, indent=0, sort_keys=True)
print(len(table), "carriers;", sum(v["token"] for v in table.values()), "tokens,", sum(v["line"] for v in table.values()), "lines")
