#!/venv/bin/python
"""Writes MANIFEST.json (kept as a generator so the per-check texts live in one place)."""
import json

NA = {
    "C01": "totality and cost of parsing are functions of the document text alone; no stream, fault, clock or history in the statement - the simulator's CPU budgets only contain hangs, they do not search for them (needs input-space enumeration, another technique)",
    "C02": "regenerate(parse(d)) == d is a pure function of d; no I/O, schedule or fault participates",
    "C03": "conformance to CommonMark/GFM needs an independent parser as oracle over an enumerated input space; nothing to schedule or inject",
    "C04": "well-nestedness of the token list is a pure function of d",
    "C05": "token line/column truth is a pure function of d",
    "C06": "a rule's verdict is a pure function of (d, that rule's settings); deciding it needs an independent statement of the rule conditions over an input space",
    "C08": "meaning preservation of fix compares two renderings of (d, fix(d)); pure function of (d, configuration); the I/O half of fix is covered by C10/C15",
    "C09": "idempotence of fix is a pure function of (d, configuration); the crash-related reading (re-running after an interrupted run) follows from C15's {original, fully fixed} clause and is checked there",
    "C11": "pragma suppression and invisibility are pure functions of (d, insertion point)",
    "C12": "reports(S) = union of reports({r}) compares configurations on one document in fresh runs; dispatch order is fixed by a sort, not by any schedule (state shared between files is C13, claimed)",
    "C17": "precedence of configuration layers is a finite product of configurations with no fault, schedule or history dimension: enumeration of a table, not simulation",
    "C20": "extension inertness is a pure function of (d, extension set); an extension switch leaking between invocations is a history effect and is exercised under C13",
}

CHECKS = {
    "C07": (
        "exploration",
        "Narrowed to the clauses that meet nondeterminism or faults: (a) repeatable - one scenario executed in 4 worlds differing only in hash-seed class, directory-listing permutation, temp names, cold/warm rule modules, argument order and copy implementation must give identical stdout/stderr/exit/bytes; (b) each file's failure block ordered by (line, column, rule id), file blocks in sorted order, no line twice; (c) an exception injected at a seeded rule callback surfaces as a plugin error naming rule and action. (d) every reported (line, column) exists in the scanned file, as an absolute statement on the executions performed (pool documents incl. separator / big-UTF-8 / identifier-collection edge documents), not a search over documents; (e) third-party probe rules loaded with permuted --add-plugin order must not change the built-in rules' reports. Seeded sampling, not proof. Not claimed: 'no rule crashes on any document' (input-quantified).",
        "deterministic simulation: multi-world differential replay + callback fault injection",
        "4.C07",
        "Trusts the simulator's seams (audit hook, listing permutation, seeded temp names, template hash-seed classes) to cover the nondeterminism pymarkdown meets; determinism self-test in setup.",
    ),
    "C10": (
        "exploration",
        "Every file-system effect of scan / scan-stdin / list / fix / API runs (1-3 operations in one process, 1-5 files) is observed at the audit-event seam and by before/after snapshots: read-only operations perform no mutating event outside the private temp dir and leave nothing behind; in fix runs bytes changed <=> 'Fixed:' / files_fixed <=> fixed exit code; files whose reference scan shows no fixable failure stay byte-identical; probe-only runs match a hand-verifiable fix model; read-only and fix operations are also judged under injected contained faults (rule callback, parser, OS error incl. sticky EPERM at the replace step, log-file close); the same relation is checked through PyMarkdownApi in both schemes. A quarter of the scenarios give every document of a fix operation a second (hard-link) name outside the run, which must keep its original bytes. Seeded sampling over the document pool.",
        "deterministic simulation: audit-event effect observer + snapshots, differential against solo reference runs, tiny fix model",
        "4.C10",
        "Faulted fix operations are judged here only for truthfulness (announced <=> changed <=> result); what a faulted fix may leave on disk is C15's clause. sys.addaudithook sees every CPython-level file operation; effects through other processes are out of scope (pymarkdown starts none).",
    ),
    "C13": (
        "exploration",
        "Histories inside one forked process: one invocation over many files, 2-4 invocations with different configurations, one PyMarkdownApi object reused, histories containing a contained fault. Oracle: each operation == the same operation alone in a pristine process, each file of a multi-file run == that file alone. Quick tier additionally enumerates ALL ordered pairs of the hand-written carrier pool (scan and fix) as adjacent files of chain invocations; thorough does so for the whole 800-document pool; 'dirty' chains cut every carrier short mid-dispatch (token, line, provider read) with an injected exception, 'sweep' chains do so at every k-th callback ordinal, 'natural' chains use documents that make the parser fail by itself; a third of the chains run under a configuration that makes otherwise dormant per-file fields observable; 'first-construct' chains put 94 tiny followers whose first element consults per-file state behind every abort ordinal of 30 carriers (all carriers in the thorough tier); for dirty/sweep/first-construct chains the recorded callback trace of the following document (incl. line numbers) is compared with its solo trace as well as its output.",
        "deterministic simulation: seeded history exploration + exhaustive ordered-pair chains, differential against pristine-process reference executions",
        "4.C13",
        "Reference executions are the same code in a pristine process, so document-dependent parser/rule bugs cancel out; a carry-over that needs a document shape outside the pool is not found.",
    ),
    "C14": (
        "exploration",
        "Call logs of recording rules (three probe plugins at first/middle/last dispatch position, scan-only or fix-capable at seeded levels, one possibly disabled; plus recorded built-in rules) are checked against a reference automaton (START, every token of the parser's stream in order, every line with exact text and number, COMPLETE, each exactly once; fix sub-passes of the same shape; disabled rule receives nothing). Expected tokens/lines are taken at other seams of the same execution (parser return value, the text the parser consumed, the file's bytes at operation start); sub-passes are delimited by file reads and by START-after-COMPLETE; fix sub-passes are additionally compared with what a pristine scan of the same bytes delivers (token stream incl. pragma token rule). Disabling is exercised by id, name, wildcard, configuration file and extra --config; same-file histories (a file reached again through a symlink, scan after fix) use snapshots taken at operation start.",
        "deterministic simulation: recorded callback history checked against a reference automaton",
        "4.C14",
        "Fix-mode pass participation is not modelled (a sub-pass may be empty or a bare START); in fix passes line text is piped through fixers so only count and numbering are judged there.",
    ),
    "C15": (
        "fault_enumeration",
        "Per seeded workload (1-5 files, scan/fix, with/without --continue-on-error) faults are taken from the sites its dry run reached: exception at rule callbacks (raise / run-then-raise), parser failure before parsing and at provider reads, undecodable file at each position, process kill (incl. after-open truncation and k-byte prefix) and OS errors at every audited file-system step of a fix incl. between emulated copy chunks, kills at rule-dispatch/parser sites, KeyboardInterrupt at the same sites, sticky (repeating) OS errors, faults at write/flush/close of every written file (write-proxy seam), two faults per run, CLI and API, hard-linked inputs, documents named through symbolic links into another directory, single-file-system and cross-device (EXDEV) worlds, chains where the fault is followed by further files, and a standard-input shape (scan-stdin / scan_string: faults at callbacks, parser, provider reads, every step of the spool file, undecodable input). Thorough tier enumerates reached fs sites x actions, callback kinds x first/middle/last, parser calls and file positions per workload (capped at 120 faults per workload, seeded choice beyond that). Oracle: exit = system error, file named, others == 'failing file absent' run, every file in {original, fully fixed}, no temp files.",
        "deterministic simulation: per-workload fault-site enumeration with kill / OS-error / exception injection, differential oracle",
        "4.C15",
        "Process-crash model (completed syscalls durable; no power-loss model). Kill points at audited events and between emulated copy chunks; a kill inside one write is represented by synthesised truncated / prefix states.",
    ),
    "C16": (
        "exploration",
        "One document through every entry point, each in a pristine process: file scan, scan-stdin over a simulated stream with seeded short reads (splits inside multi-byte characters and between CR and LF), scan_string, scan_path, in-place fix vs fix_string, rule selections expressed both as flags and repeated --set / API calls; again with each diagnostics option, incl. multi-file runs with a contained failure under --continue-on-error, and the same contained failure met through the file and the stdin entry point; under UTF-8 and legacy C locale templates. Failure tuples, fixed text (newline-normalised), exit status must agree; spool files must be gone.",
        "deterministic simulation: simulated stdin stream + locale classes, differential across entry points",
        "4.C16",
        "Under the C locale the stdin path is compared for ASCII documents only. Log lines are ignored, everything else must be identical.",
    ),
    "C18": (
        "exploration",
        "Scenarios constructed to land in each outcome category in each listed way (clean/failing/fixable files, sub-commands, missing/ineligible paths, bad arguments, broken and corrupted configuration files, injected rule/parser faults also in a later file, undecodable files, mixtures across 2-5 files, sub-commands under a broken configuration, application errors of a document on standard input), scheme selected by flag / --set / .pymarkdown JSON / YAML / pyproject.toml / --config / absent / flag together with a conflicting configuration value. Expected category is computed from construction + solo reference facts + injected faults, never from the run's output, and looked up in the table copied from the user guide.",
        "deterministic simulation: constructed outcome categories incl. injected faults vs documented table model",
        "4.C18",
        "Outcomes the table does not mention are not judged (pragma-error documents in success scenarios, fix runs that change nothing over unfixable failures, injected OS errors).",
    ),
    "C19": (
        "exploration",
        "Seeded directory trees on the real scratch file system x 1-3 path arguments in several spellings (relative, ./, .., absolute, `**/` and absolute globs, live and dangling symlinks, prefix-sharing sibling directories) x --recurse x --alternate-extensions for --list-files, scan, fix and list_path, under seeded directory-listing permutations, hash-seed classes and two argument orders; compared with a ~150-line executable model of the user guide's selection rules (set, once each, sorted, error short-circuit, no-files result). One scenario in ten uses a fixed tree with symbolic links to directories and argument spellings through them (link/.., link/../a.md), judged by a separate physical path resolver.",
        "deterministic simulation: seeded trees with permuted listing order vs executable reference model",
        "4.C19",
        "The model implements glob semantics on the generated name alphabet only; directory links exist in the fixed directory-link tree only; unreadable directories and symlink loops are not generated.",
    ),
}

manifest = {
    "version": 1,
    "setup_cmd": "cd /verif && /venv/bin/python -m compileall -q pmsim plugins pmsim_cli.py >/dev/null && timeout 900 /venv/bin/python pmsim_cli.py selftest --size short",
    "hooks": {
        "guard": "PYMARKDOWN_VERIF",
        "enable": "no source hooks: every seam is attached from outside (sys.addaudithook, patched os/tempfile/shutil in the forked child, wrapped rule callbacks / parser entry, probe plugins via --add-plugin); the guard name is reserved and nothing in /repo reads it",
        "baseline_off_cmd": "cd /repo && /venv/bin/python -m pytest -ra -q -p no:cacheprovider --timeout=900 --continue-on-collection-errors",
        "source_commits": [],
        "add_only": True,
    },
    "engines": [
        {
            "name": "pmsim",
            "path": "/verif/pmsim",
            "serves_properties": sorted(CHECKS),
            "kind_free_text": "deterministic simulation with fault injection: template processes (fixed hash-seed/locale class) fork one child per execution; real pymarkdown on a private scratch FS; seeded worlds (listing order, temp names, stdin chunking, copy emulation), fault plans addressed by (site, file, ordinal) from a dry run; differential oracles; greedy scenario shrinking; JSON replay files",
        }
    ],
    "checks": [],
    "not_applicable": [{"property_id": pid, "reason": NA[pid]} for pid in sorted(NA)],
    "notes": "Exit status of every check: 0 = property held on everything explored (KNOWN-FINDING lines for listed findings), 1 = unlisted violation (VIOLATION line + replay file), 2 = harness error (never a verdict). VERIF_SEED selects the sweep; PMSIM_REPO=<dir> points the checks at another source tree (used for seeded-change experiments only).",
}
for pid in sorted(CHECKS):
    level, text, technique, ref, note = CHECKS[pid]
    manifest["checks"].append(
        {
            "property_id": pid,
            "quick_cmd": "timeout 1500 /venv/bin/python /verif/pmsim_cli.py check %s --tier quick" % pid,
            "thorough_cmd": "timeout 7000 /venv/bin/python /verif/pmsim_cli.py check %s --tier thorough" % pid,
            "evidence_file": "/verif/evidence/%s.json" % pid,
            "replay_cmd_template": "/venv/bin/python /verif/pmsim_cli.py replay {path}",
            "engine": "pmsim",
            "level_claimed": {"category": level, "text": text, "design_ref": "DESIGN.md section " + ref},
            "level_note": note,
            "technique": technique,
        }
    )
with open("/verif/MANIFEST.json", "w") as handle:
    json.dump(manifest, handle, indent=1)
print("written", len(manifest["checks"]), "checks,", len(manifest["not_applicable"]), "not applicable")
