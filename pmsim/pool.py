"""Template pool, execution client and the parallel scenario driver."""

import atexit
import concurrent.futures
import hashlib
import json
import multiprocessing
import os
import subprocess
import sys
import time

HERE = os.path.dirname(os.path.abspath(__file__))
VERIF = os.path.dirname(HERE)
RT = os.path.join(HERE, "rt.py")
PY = "/venv/bin/python"
REPO = os.environ.get("PMSIM_REPO", "/repo")

HASH_CLASSES = (0, 1, 2, 3, 101)
DEFAULT_CLASS = (0, "utf8")


class HarnessError(Exception):
    """The simulator itself failed; never a verdict about pymarkdown."""


def template_env(hashseed, locale):
    env = {
        "PATH": "/usr/bin:/bin",
        "HOME": "/nonexistent",
        "PYTHONHASHSEED": str(hashseed),
        "PYTHONPATH": REPO,
        "PYTHONDONTWRITEBYTECODE": "1",
        "COLUMNS": "80",
        "TZ": "UTC",
        "PIP_NO_INDEX": "1",
    }
    if os.environ.get("PMSIM_SCRATCH"):
        env["PMSIM_SCRATCH"] = os.environ["PMSIM_SCRATCH"]
    if locale == "utf8":
        env["LANG"] = "C.UTF-8"
        env["LC_ALL"] = "C.UTF-8"
    elif locale == "C":
        env["LANG"] = "C"
        env["LC_ALL"] = "C"
        env["PYTHONCOERCECLOCALE"] = "0"
        env["PYTHONUTF8"] = "0"
    else:
        raise HarnessError("unknown locale class %r" % (locale,))
    return env


class Template:
    def __init__(self, hashseed=0, locale="utf8"):
        self.cls = (hashseed, locale)
        self.proc = subprocess.Popen(
            [PY, RT],
            stdin=subprocess.PIPE,
            stdout=subprocess.PIPE,
            env=template_env(hashseed, locale),
            cwd="/",
        )
        line = self.proc.stdout.readline()
        if not line:
            raise HarnessError("template %r did not start" % (self.cls,))
        ready = json.loads(line)
        expected = os.path.realpath(os.path.join(REPO, "pymarkdown"))
        if os.path.realpath(ready.get("pymarkdown", "")) != expected:
            raise HarnessError("template imported pymarkdown from %r, expected %r" % (ready.get("pymarkdown"), expected))
        self.executions = 0

    def run(self, request):
        self.proc.stdin.write((json.dumps(request) + "\n").encode())
        self.proc.stdin.flush()
        line = self.proc.stdout.readline()
        if not line:
            raise HarnessError("template %r died" % (self.cls,))
        self.executions += 1
        return json.loads(line)

    def close(self):
        try:
            self.proc.stdin.close()
        except OSError:
            pass
        try:
            self.proc.wait(timeout=10)
        except subprocess.TimeoutExpired:
            self.proc.kill()


class Exec:
    """Execution client: lazily owns one template per class."""

    def __init__(self):
        self.templates = {}
        self.executions = 0
        self.steps = 0
        atexit.register(self.close)

    def run(self, request, cls=DEFAULT_CLASS):
        cls = tuple(cls)
        template = self.templates.get(cls)
        if template is None:
            template = Template(*cls)
            self.templates[cls] = template
        reply = template.run(request)
        self.executions += 1
        if reply.get("status") == "harness_error" or reply.get("harness_error"):
            raise HarnessError("child harness error: %s" % (reply.get("harness_error"),))
        result = reply.get("result")
        if result is not None:
            self.steps += result.get("steps", 0)
            for note in result.get("harness", []):
                if note.startswith("seam missing") or note.startswith("cb seam failed") or note.startswith("unknown"):
                    raise HarnessError(note)
        return reply

    def close(self):
        for template in self.templates.values():
            template.close()
        self.templates = {}


_EXEC = None


def get_exec():
    global _EXEC
    if _EXEC is None or _EXEC_PID[0] != os.getpid():
        _EXEC = Exec()
        _EXEC_PID[0] = os.getpid()
    return _EXEC


_EXEC_PID = [None]


def derive_seed(base, prop, index):
    digest = hashlib.sha256(("%s|%s|%s" % (base, prop, index)).encode()).digest()
    return int.from_bytes(digest[:8], "big")


def _call(payload):
    func_module, func_name, args = payload
    module = sys.modules.get(func_module) or __import__(func_module, fromlist=["x"])
    func = getattr(module, func_name)
    try:
        return {"ok": func(*args)}
    except HarnessError as this_error:
        return {"harness": str(this_error)}
    except Exception:  # pragma: no cover
        import traceback

        return {"harness": "scenario crashed:\n" + traceback.format_exc()}


def run_parallel(func_module, func_name, arg_list, workers=None, wall_cap=None, per_task_timeout=900, stop_when=None):
    """Run func(*args) for every args in arg_list in forked workers.

    Yields (args, outcome) as they complete.  Stops submitting when wall_cap
    (seconds) is exceeded; outcomes not started are reported by the caller.
    """
    workers = workers or min(16, os.cpu_count() or 4)
    context = multiprocessing.get_context("fork")
    started = time.monotonic()
    results = []
    with concurrent.futures.ProcessPoolExecutor(max_workers=workers, mp_context=context) as pool:
        pending = {}
        iterator = iter(arg_list)
        exhausted = False
        capped = False
        while True:
            while not exhausted and not capped and len(pending) < workers * 2:
                if wall_cap is not None and time.monotonic() - started > wall_cap:
                    capped = True
                    break
                try:
                    args = next(iterator)
                except StopIteration:
                    exhausted = True
                    break
                future = pool.submit(_call, (func_module, func_name, args))
                pending[future] = args
            if not pending:
                break
            done, _ = concurrent.futures.wait(pending, timeout=per_task_timeout, return_when=concurrent.futures.FIRST_COMPLETED)
            if not done:
                for future in pending:
                    future.cancel()
                raise HarnessError("scenario workers made no progress for %ss" % per_task_timeout)
            for future in done:
                args = pending.pop(future)
                try:
                    outcome = future.result()
                except Exception as this_exception:  # worker died
                    outcome = {"harness": "worker failure: %r" % (this_exception,)}
                results.append((args, outcome))
                if stop_when is not None and not capped and stop_when(outcome):
                    capped = True  # sensitivity campaigns only: one hit is enough
    return results, capped
