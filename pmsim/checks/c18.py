"""C18 - exit codes follow the documented table in both schemes.

Scenarios are *constructed* to land in a known outcome category; the category
is computed from how the scenario was built, from reference executions of the
individual documents and from the injected faults - never from the run's own
output - and looked up in the table copied from the user guide.
"""

import collections
import copy
import json

from .. import carriers, workload
from ..common import EXIT_TABLE, NEUTRAL_WORLD, OpView, done, event_digest, run, solo, violation
from ..corpus import b64, unb64

PROP = "C18"
LEVEL = "exploration"
COUNTS = {"quick": 1500, "thorough": 30000}
WALL = {"quick": 900, "thorough": 6000}
RULE = (
    "scenario = one invocation constructed to land in a known category (success / no files / command-line error / fixed / "
    "failures / system error) in one of the ways listed in the property, or a mixture across 2-5 files of clean, failing, "
    "fixable and faulted documents (injected rule exception, parser failure, undecodable file), with the scheme chosen by flag, "
    "by --set, by each kind of configuration file, or absent.  Non-trivial = the scenario was judged (expected category "
    "derivable); distinct = distinct (category, scheme source, construction kind, execution digest)."
)
ASSUMPTIONS = [
    "the table is the one in newdocs/src/user-guide.md; precedence system error > fixed > failures > success ('never masked')",
    "a plugins/extensions sub-command whose filter or id matches nothing is taken to be the no-files category (the tool's own convention: 1 under default, 0 under minimal)",
    "when --return-code-scheme and mode.return_code_scheme are both given, the explicit argument decides (command line is the most specific configuration layer)",
    "document facts (clean? has failures? fix changes bytes?) come from solo reference executions of each document with the same configuration",
    "outcomes the table does not mention are not judged: documents with pragma errors are kept out of 'success' scenarios, fix runs that change nothing over documents with unfixable failures are not judged, injected OS errors are not used",
]
PROBES = ["cat:success", "cat:no_files", "cat:cmdline", "cat:fixed", "cat:failures", "cat:system", "scheme_by:flag", "scheme_by:set", "scheme_by:json", "scheme_by:yaml", "scheme_by:pyproject", "scheme_by:config-arg", "scheme_by:flag+json", "scheme_by:flag+set", "scheme_by:flag+config-arg", "mixture_error_first", "mixture_error_middle", "mixture_error_last", "mixture_error_with_fixed", "corrupt_config", "stdin_application_error"]

SCHEME_SOURCES = ["absent", "absent", "flag", "flag", "set", "json", "yaml", "pyproject", "config-arg", "flag+json", "flag+set", "flag+config-arg"]


def _scheme_setup(rng):
    """-> (scheme, source, flags, extra files)"""
    source = rng.choice(SCHEME_SOURCES)
    if source == "absent":
        return "default", source, [], {}
    scheme = rng.choice(["default", "minimal", "minimal"])
    if source.startswith("flag+"):
        # the explicit argument and the configuration both name a scheme (often
        # different ones): the argument is the more specific layer and decides
        other = rng.choice(["default", "minimal"])
        flags = ["--return-code-scheme", scheme]
        if source == "flag+json":
            return scheme, source, flags, {".pymarkdown": json.dumps({"mode": {"return_code_scheme": other}}).encode()}
        if source == "flag+set":
            return scheme, source, flags + ["--set", "mode.return_code_scheme=%s" % other], {}
        return scheme, source, flags + ["--config", "cfg/settings.json"], {"cfg/settings.json": json.dumps({"mode": {"return_code_scheme": other}}).encode()}
    if source == "flag":
        return scheme, source, ["--return-code-scheme", scheme], {}
    if source == "set":
        return scheme, source, ["--set", "mode.return_code_scheme=%s" % scheme], {}
    if source == "json":
        return scheme, source, [], {".pymarkdown": json.dumps({"mode": {"return_code_scheme": scheme}}).encode()}
    if source == "yaml":
        return scheme, source, [], {rng.choice([".pymarkdown.yaml", ".pymarkdown.yml"]): ("mode:\n  return_code_scheme: %s\n" % scheme).encode()}
    if source == "pyproject":
        return scheme, source, [], {"pyproject.toml": ('[tool.pymarkdown]\nmode.return_code_scheme = "%s"\n' % scheme).encode()}
    return scheme, source, ["--config", "cfg/settings.json"], {"cfg/settings.json": json.dumps({"mode": {"return_code_scheme": scheme}}).encode()}


def generate(rng, tier, index):
    scheme, source, flags, extra = _scheme_setup(rng)
    construction = rng.choice(
        ["success", "success-sub", "no_files", "cmdline", "fixed", "failures", "system-config", "system-fault", "mixture", "mixture", "mixture", "mixture"]
    )
    sc = {
        "cls": workload.draw_class(rng),
        "world": workload.draw_world(rng),
        "scheme": scheme,
        "scheme_source": source,
        "flags": flags,
        "extra": workload.files_to_spec(extra),
        "construction": construction,
        "files": {},
        "labels": {},
        "plan": [],
        "poison": {},
        "stdin": None,
    }
    coe = rng.random() < 0.5
    if construction == "success":
        how = rng.choice(["scan", "scan", "list", "fix-nochange", "stdin"])
        docs = workload.draw_docs(rng, rng.choice([1, 2, 3]), need=["clean"], allow_concat=False)
        files, labels = workload.assign_names(rng, docs)
        sc["files"], sc["labels"] = workload.files_to_spec(files), labels
        paths = sorted(files)
        if how == "scan":
            sc["argv_tail"] = ["scan"] + paths
            sc["expect"] = {"kind": "scan"}
        elif how == "list":
            sc["argv_tail"] = ["scan", "--list-files"] + paths
            sc["expect"] = {"kind": "fixed-category", "category": "success"}
        elif how == "fix-nochange":
            sc["argv_tail"] = ["fix"] + paths
            sc["expect"] = {"kind": "fix"}
        else:
            name = paths[0]
            sc["stdin"] = sc["files"][name]["b64"]
            sc["stdin_doc"] = name
            sc["argv_tail"] = ["scan-stdin"]
            sc["expect"] = {"kind": "stdin"}
    elif construction == "success-sub":
        sc["argv_tail"] = rng.choice([["version"], ["plugins", "list"], ["plugins", "list", "--all"], ["plugins", "info", "md001"], ["extensions", "list"], ["extensions", "info", "front-matter"], ["plugins", "list", "md0*"]])
        sc["expect"] = {"kind": "fixed-category", "category": "success"}
    elif construction == "no_files":
        how = rng.choice(["missing", "ineligible", "glob", "emptydir", "list-empty", "dir-no-md", "sub-nomatch", "sub-nomatch"])
        command = rng.choice(["scan", "fix"]) if how != "list-empty" else "scan"
        if how == "sub-nomatch":
            # convention of the tool: a sub-command filter that matches nothing is
            # reported like "nothing to process" (1 / 0)
            sc["argv_tail"] = rng.choice([["plugins", "list", "zz-no-such-rule*"], ["plugins", "info", "zz999"], ["plugins", "info", "no-such-rule-name"], ["extensions", "info", "no-such-extension"]])
        elif how == "missing":
            sc["argv_tail"] = [command, "nosuch.md"]
        elif how == "ineligible":
            sc["files"] = workload.files_to_spec({"notes.txt": b"# T\n"})
            sc["argv_tail"] = [command, "notes.txt"]
        elif how == "glob":
            sc["files"] = workload.files_to_spec({"a.md": b"# T\n"})
            sc["argv_tail"] = [command, "*.nomatch"]
        elif how == "emptydir":
            sc["dirs"] = ["empty"]
            sc["argv_tail"] = [command, "empty"]
        elif how == "list-empty":
            sc["dirs"] = ["empty"]
            sc["argv_tail"] = ["scan", "--list-files", "empty"]
        else:
            sc["files"] = workload.files_to_spec({"docs/readme.txt": b"text\n", "docs/sub/deep.md": b"# T\n"})
            sc["argv_tail"] = [command, "docs"]
        sc["expect"] = {"kind": "fixed-category", "category": "no_files"}
    elif construction == "cmdline":
        sc["files"] = workload.files_to_spec({"a.md": b"# T\n"})
        sc["argv_tail"] = rng.choice(
            [
                ["--no-such-flag", "scan", "a.md"],
                [],
                ["scan"],
                ["scan", "-ae", "md", "a.md"],
                ["scan", "-ae", ".m-d", "a.md"],
                ["--return-code-scheme", "bogus", "scan", "a.md"],
                ["--log-level", "LOUD", "scan", "a.md"],
                ["bogus-command", "a.md"],
                ["plugins"],
                ["plugins", "info"],
                ["fix"],
                ["scan", "--bogus", "a.md"],
            ]
        )
        sc["expect"] = {"kind": "fixed-category", "category": "cmdline"}
        sc["argv_prefix_last"] = True
    elif construction == "fixed":
        docs = workload.draw_docs(rng, rng.choice([1, 2, 3]), need=["fixable"], allow_concat=False)
        files, labels = workload.assign_names(rng, docs)
        sc["files"], sc["labels"] = workload.files_to_spec(files), labels
        sc["argv_tail"] = ["fix"] + sorted(files)
        sc["expect"] = {"kind": "fix"}
    elif construction == "failures":
        docs = workload.draw_docs(rng, rng.choice([1, 2, 3]), need=["failing"], allow_concat=False)
        files, labels = workload.assign_names(rng, docs)
        sc["files"], sc["labels"] = workload.files_to_spec(files), labels
        if rng.random() < 0.2:
            name = sorted(files)[0]
            sc["stdin"] = sc["files"][name]["b64"]
            sc["stdin_doc"] = name
            sc["argv_tail"] = ["scan-stdin"]
            sc["expect"] = {"kind": "stdin"}
        else:
            sc["argv_tail"] = ["scan"] + sorted(files)
            sc["expect"] = {"kind": "scan"}
    elif construction == "system-config":
        sc["files"] = workload.files_to_spec({"a.md": b"# T\n"})
        how = rng.choice(["bad-config-path", "unparsable-json", "corrupt-json", "corrupt-yaml", "corrupt-toml", "bad-plugin-path", "strict-set", "bad-scheme-value", "config-is-dir", "corrupt-default+explicit", "corrupt-default+explicit"])
        command = rng.choice(["scan", "fix"])
        tail = [command, "a.md"]
        if how in ("strict-set", "bad-config-path", "unparsable-json", "corrupt-yaml", "bad-plugin-path") and rng.random() < 0.35:
            # the same broken configuration through a sub-command
            tail = rng.choice([["plugins", "list"], ["plugins", "info", "md001"], ["extensions", "list"], ["plugins", "list", "md0*"]])
            sc["via_subcommand"] = True
        if sc["scheme_source"] not in ("absent", "flag"):
            # configuration-file based scheme selection would conflict with the
            # broken configuration this scenario constructs
            sc["flags"], sc["extra"], sc["scheme_source"], sc["scheme"] = [], {}, "absent", "default"
        if how == "bad-config-path":
            sc["argv_tail"] = ["--config", "missing.json"] + tail
        elif how == "unparsable-json":
            sc["extra"][".pymarkdown"] = {"b64": b64(b"{ this is not json")}
            sc["argv_tail"] = tail
        elif how == "corrupt-json":
            good = json.dumps({"plugins": {"md013": {"line_length": 50}}, "mode": {"return_code_scheme": scheme}}).encode()
            sc["extra"][".pymarkdown"] = {"b64": b64(good[: rng.randrange(1, len(good) - 1)])}
            sc["argv_tail"] = tail
            sc["corrupt"] = True
        elif how == "corrupt-yaml":
            sc["extra"][".pymarkdown.yaml"] = {"b64": b64(b"mode:\n  return_code_scheme: [unclosed\n\tbad: tab\n")}
            sc["argv_tail"] = tail
            sc["corrupt"] = True
        elif how == "corrupt-toml":
            sc["extra"]["pyproject.toml"] = {"b64": b64(b'[tool.pymarkdown\nmode.return_code_scheme = "minimal\n')}
            sc["argv_tail"] = tail
            sc["corrupt"] = True
        elif how == "corrupt-default+explicit":
            # a broken default configuration file is an error also when a valid file is
            # named explicitly (both layers are read)
            broken_name = rng.choice([".pymarkdown", ".pymarkdown.yaml", ".pymarkdown.yml"])
            broken = b"{ not json" if broken_name == ".pymarkdown" else b"mode:\n  return_code_scheme: [unclosed\n\tbad: tab\n"
            sc["extra"][broken_name] = {"b64": b64(broken)}
            explicit = rng.choice([".pymarkdown.ci.json", ".pymarkdown-strict.json", "cfg/ok.json", ".pymarkdown.yml" if broken_name != ".pymarkdown.yml" else "cfg/ok.json"])
            if explicit.endswith(".yml"):
                sc["extra"][explicit] = {"b64": b64(b"plugins:\n  md013:\n    line_length: 100\n")}
            else:
                sc["extra"][explicit] = {"b64": b64(json.dumps({"plugins": {"md013": {"line_length": 100}}}).encode())}
            sc["argv_tail"] = ["--config", explicit] + tail
            sc["corrupt"] = True
        elif how == "bad-plugin-path":
            sc["argv_tail"] = ["--add-plugin", "nosuch_plugin.py"] + tail
        elif how == "strict-set":
            bad = rng.choice(["plugins.md013.line_length=$#-5", "extensions.front-matter.enabled=abc", "plugins.md007.indent=$#1"])
            sc["argv_tail"] = ["--strict-config", "--set", bad] + tail
        elif how == "bad-scheme-value":
            sc["argv_tail"] = ["--set", "mode.return_code_scheme=bogus"] + tail
            sc["flags"], sc["extra"], sc["scheme_source"], sc["scheme"] = [], {}, "absent", "default"
        else:
            sc["dirs"] = ["confdir"]
            sc["argv_tail"] = ["--config", "confdir"] + tail
        sc["how"] = how
        sc["expect"] = {"kind": "fixed-category", "category": "system"}
    else:  # system-fault and mixtures
        mode = rng.choice(["scan", "fix"])
        count = 1 if construction == "system-fault" else rng.choice([2, 3, 3, 4, 5])
        docs = []
        for _ in range(count):
            want = rng.choice(["clean", "failing", "fixable"])
            docs.extend(workload.draw_docs(rng, 1, need=[want], allow_concat=False))
        files, labels = workload.assign_names(rng, docs)
        sc["files"], sc["labels"] = workload.files_to_spec(files), labels
        names = sorted(files)
        n_faults = 1 if construction == "system-fault" else rng.choice([0, 0, 1, 1, 1, 2])
        for name in rng.sample(names, min(n_faults, len(names))):
            kind = rng.choice(["parse", "cb", "undecodable", "natural", "parse-later"])
            if kind == "parse":
                sc["plan"].append({"site": "parse", "file": name, "ord": 1, "act": "badtok"})
            elif kind == "parse-later":
                # the parser fails in a later pass of a fix (rescan after a token fix, or the
                # next fix level), i.e. after earlier passes have already fixed something
                sc["plan"].append({"site": "parse", "file": name, "ord": rng.choice([2, 2, 3]), "act": "badtok"})
            elif kind == "cb":
                sc["plan"].append({"site": "cb/md047/next_line", "file": name, "ord": 1, "act": rng.choice(["raise", "raise_after"]), "exc": rng.choice(["RuntimeError", "IndexError", "AssertionError"])})
            elif kind == "undecodable":
                sc["poison"][name] = rng.choice(sorted(carriers.POISON))
            else:
                sc["poison"][name] = "natural_dash_tab"
        if coe:
            sc["flags"] = ["--continue-on-error"] + sc["flags"]
        sc["coe"] = coe
        sc["mode"] = mode
        sc["argv_tail"] = [mode] + names
        sc["expect"] = {"kind": mode}
        if construction == "system-fault" and rng.random() < 0.3:
            # the same application error, the document arriving on standard input
            name = names[0]
            sc["stdin"] = _files(sc)[name]["b64"]
            sc["stdin_doc"] = name
            sc["argv_tail"] = ["scan-stdin"]
            sc["expect"] = {"kind": "stdin"}
            sc["mode"] = "scan"
            for entry in sc["plan"]:
                entry["file"] = "<stdin>"
                if entry["site"] == "parse":
                    entry["ord"] = 1
    return sc


def _files(sc):
    files = dict(sc["files"])
    for name, which in sc.get("poison", {}).items():
        data = carriers.POISON.get(which) or carriers.NATURAL_PARSER_FAIL[which]
        files[name] = {"b64": b64(data)}
    files.update(sc.get("extra") or {})
    return files


def _request(sc):
    argv = list(sc["flags"]) + list(sc["argv_tail"])
    op = {"kind": "cli", "argv": argv}
    if sc.get("stdin") is not None:
        op["stdin_b64"] = sc["stdin"]
        op["stdin_chunks"] = [64]
    request = {"files": _files(sc), "world": sc["world"], "cpu": 40, "ops": [op]}
    if sc.get("dirs"):
        request["dirs"] = sc["dirs"]
    if sc.get("plan"):
        request["plan"] = sc["plan"]
    return request


def _doc_facts(sc, name, mode):
    """Facts about one document from its solo reference runs (same configuration
    flags and configuration files, default scheme irrelevant)."""
    data = unb64(sc["files"][name]["b64"])
    extra = workload.spec_to_files(sc.get("extra") or {})
    flags = [f for f in sc["flags"] if f != "--continue-on-error"]
    scan = solo(name, data, flags, "scan", extra_files=extra, cls=sc["cls"])
    if not scan.ok or scan.view.exc or scan.view.err_other or scan.view.err0:
        return None
    facts = {"pragma": bool(scan.view.pragma.get(name)), "failing": bool(scan.view.fail.get(name))}
    if mode == "fix":
        fix = solo(name, data, flags, "fix", extra_files=extra, cls=sc["cls"])
        if not fix.ok or fix.view.exc or fix.view.err_other or fix.view.err0:
            return None
        facts["changes"] = fix.changed
    return facts


def evaluate(sc):
    stats = collections.Counter()
    out = []
    reply = run(_request(sc), sc["cls"])
    value = event_digest(reply)
    if not done(reply):
        return {"violations": [], "evals": 1, "digests": [(value, False)], "stats": {"not_done": 1}, "faults": {}, "skipped": True}
    result = reply["result"]
    view = OpView(result["ops"][0])
    expect = sc["expect"]
    category = None
    note = None
    fired = result.get("fired") or []
    if expect["kind"] == "fixed-category":
        category = expect["category"]
    elif expect["kind"] == "stdin":
        if sc.get("plan") or sc.get("poison"):
            if sc.get("poison") or fired:
                category = "system"
                stats["stdin_application_error"] += 1
            else:
                stats["fault_not_fired"] += 1
        else:
            facts = _doc_facts(sc, sc["stdin_doc"], "scan")
            if facts and not facts["pragma"]:
                category = "failures" if facts["failing"] else "success"
    else:
        mode = expect["kind"]
        names = sorted(sc["files"])
        planned = {entry["file"] for entry in sc.get("plan") or []}
        fired_files = {sc["plan"][i]["file"] for i in fired}
        if planned - fired_files:
            stats["fault_not_fired"] += 1
            # without continue-on-error a later fault legitimately never fires
            if not (sc.get("coe") is False and (fired_files or sc.get("poison"))):
                note = "planned fault not reached"
        faulted = fired_files | set(sc.get("poison", {}))
        if note is None:
            if faulted:
                category = "system"
                position = names.index(sorted(faulted)[0])
                if len(names) > 1:
                    stats["mixture_error_first" if position == 0 else "mixture_error_last" if position == len(names) - 1 else "mixture_error_middle"] += 1
            else:
                facts = {name: _doc_facts(sc, name, mode) for name in names}
                if all(facts.values()) and not any(f["pragma"] for f in facts.values()):
                    if mode == "scan":
                        category = "failures" if any(f["failing"] for f in facts.values()) else "success"
                    else:
                        if any(f["changes"] for f in facts.values()):
                            category = "fixed"
                        elif not any(f["failing"] for f in facts.values()):
                            category = "success"
                        else:
                            note = "fix changes nothing but failures remain: category not tabulated"
            if category == "system" and mode == "fix":
                others = [n for n in names if n not in faulted]
                if others:
                    facts = {name: _doc_facts(sc, name, mode) for name in others}
                    if any(f and f.get("changes") for f in facts.values()):
                        stats["mixture_error_with_fixed"] += 1
    if category is None:
        stats["not_judged"] += 1
        return {"violations": [], "evals": 1, "digests": [(value, False)], "stats": dict(stats), "faults": {}}
    stats["cat:" + category] += 1
    stats["scheme_by:" + sc["scheme_source"]] += 1
    if sc.get("corrupt"):
        stats["corrupt_config"] += 1
    scheme = sc["scheme"]
    if category == "cmdline":
        scheme_effective = scheme
    else:
        scheme_effective = scheme
    expected = EXIT_TABLE[scheme_effective][category]
    got = view.exit
    if view.exc:
        out.append(violation("C18/traceback", "C18/traceback|%s" % sc["construction"], {"exc": view.exc, "argv": _request(sc)["ops"][0]["argv"]}))
    elif got != expected:
        out.append(
            violation(
                "C18/exit-code",
                "C18/exit-code|%s|%s|%s|expected=%s|got=%s" % (category, scheme, sc.get("how") or ("dir-without-eligible-files" if category == "no_files" and sc["argv_tail"][-1] in ("empty", "docs") and "--list-files" not in sc["argv_tail"] else sc["construction"]), expected, got),
                {
                    "category": category,
                    "scheme": scheme,
                    "scheme_source": sc["scheme_source"],
                    "expected": expected,
                    "got": got,
                    "argv": _request(sc)["ops"][0]["argv"],
                    "plan": sc.get("plan"),
                    "poison": sc.get("poison"),
                    "stderr": view.stderr[-400:],
                    "labels": sc.get("labels"),
                },
            )
        )
    faults = {}
    if sc.get("plan"):
        faults["injected"] = [len(sc["plan"]), len(fired)]
    if sc.get("poison"):
        faults["poison-document"] = [len(sc["poison"]), len(sc["poison"])]
    return {"violations": out, "evals": 1, "digests": [((value, category, sc["scheme_source"], sc["construction"]).__repr__(), True)], "stats": dict(stats), "faults": faults}


def reductions(sc):
    names = sorted(sc["files"])
    if sc["expect"]["kind"] in ("scan", "fix") and len(names) > 1:
        for name in names:
            candidate = copy.deepcopy(sc)
            del candidate["files"][name]
            candidate["argv_tail"] = [a for a in candidate["argv_tail"] if a != name]
            candidate["plan"] = [p for p in candidate["plan"] if p["file"] != name]
            candidate["poison"].pop(name, None)
            yield candidate
    if sc["world"] != NEUTRAL_WORLD:
        candidate = copy.deepcopy(sc)
        candidate["world"] = dict(NEUTRAL_WORLD)
        yield candidate
    if sc["cls"] != [0, "utf8"]:
        candidate = copy.deepcopy(sc)
        candidate["cls"] = [0, "utf8"]
        yield candidate
    if "--continue-on-error" in sc["flags"]:
        candidate = copy.deepcopy(sc)
        candidate["flags"].remove("--continue-on-error")
        candidate["coe"] = False
        yield candidate
    if sc["scheme_source"] != "absent" and sc["expect"]["kind"] != "fixed-category":
        candidate = copy.deepcopy(sc)
        candidate["flags"] = [f for f in candidate["flags"] if f == "--continue-on-error"]
        candidate["extra"] = {}
        candidate["scheme"], candidate["scheme_source"] = "default", "absent"
        yield candidate
    if sc["expect"]["kind"] in ("scan", "fix", "stdin"):
        for name in names:
            if name in (sc.get("poison") or {}):
                continue  # the poisoned bytes are what is processed, not this entry
            data = unb64(sc["files"][name]["b64"])
            for smaller in workload.shrink_bytes_candidates(data, limit=8):
                candidate = copy.deepcopy(sc)
                candidate["files"][name] = {"b64": b64(smaller)}
                if candidate.get("stdin_doc") == name:
                    candidate["stdin"] = b64(smaller)
                yield candidate
