"""C13 - results for a file do not depend on what was processed before.

Histories inside ONE forked process: (a) one invocation over 2-5 files,
(b) 2-4 CLI invocations with different configurations, (c) one PyMarkdownApi
object reused for a sequence of calls, (d) any of these after an operation in
which a (contained) rule/parser fault happened.

Oracle (two levels, both differential against the same code):
  op level   : operation k inside the history == operation k alone in a
               pristine process (exit, stdout, stderr, API result, file bytes)
  file level : every file of a multi-file scan/fix == that file alone
"""

import collections
import copy
import json
import os
import re

from .. import workload
from ..common import NEUTRAL_WORLD, OpView, cached_run, done, event_digest, run, tree_bytes, violation
from ..corpus import b64, unb64

PROP = "C13"
LEVEL = "exploration"
HISTORIES = {"quick": 260, "thorough": 6000}
WALL = {"quick": 900, "thorough": 6000}
RULE = (
    "scenario = seeded history of 1-4 operations in one process (CLI scan/fix over 1-5 files each with its own configuration; "
    "or one reused PyMarkdownApi object with builder calls in between; optionally one operation carries an injected rule/parser "
    "fault), documents drawn preferentially as carrier/consumer pairs of the same cross-file state.  Non-trivial = the history "
    "processed >= 2 documents after the first one; distinct = distinct digest of the whole history execution."
)
ASSUMPTIONS = [
    "reference = the same operation (or the same single file) alone in a pristine forked process of the same tree, neutral world",
    "diagnostic output (logging) is excluded by not using diagnostics flags here (C16 covers them)",
    "every operation works on its own files, so a fix in operation j cannot legitimately change the input of operation k",
]
CHAINS_ENABLED = True
PROBES = ["callback_traces_compared", "shape:natural-failure-chain", "shape:sweep-chain", "shape:first-construct-chain", "shape:after-failed-fix", "shape:plugin-dirs", "shape:dirty-chain", "dirty_chain_faults_fired", "shape:chain", "history_cli_multi_invocation", "history_api_reuse", "history_with_fault", "multi_file_op", "carrier_pair_same_group", "extension_toggled", "api_after_exception"]



class _Counts(dict):
    """COUNTS[tier] = all chains of that tier + the seeded histories."""

    def __getitem__(self, tier):
        return (chain_count(tier) if CHAINS_ENABLED else 0) + HISTORIES[tier]


COUNTS = _Counts()

API_BUILDERS = [
    ["disable_rule_by_identifier", "md013"],
    ["disable_rule_by_identifier", "md009"],
    ["disable_rule_by_identifier", "md047"],
    ["disable_rule_by_identifier", "md041"],
    ["enable_rule_by_identifier", "md002"],
    ["enable_rule_by_identifier", "pml101"],
    ["set_integer_property", "plugins.md013.line_length", 40],
    ["set_integer_property", "plugins.md007.indent", 4],
    ["set_string_property", "plugins.md003.style", "atx"],
    ["set_string_property", "plugins.md004.style", "dash"],
    ["set_string_property", "plugins.md029.style", "one"],
    ["set_boolean_property", "extensions.front-matter.enabled", True],
    ["set_boolean_property", "plugins.md024.siblings_only", True],
    ["set_boolean_property", "extensions.linter-pragmas.enabled", False],
]


def _gen_cli_op(rng, index, group, fixish):
    mode = "fix" if rng.random() < fixish else "scan"
    count = rng.choice([1, 2, 2, 3, 4, 5])
    docs = workload.draw_docs(rng, count, prefer_group=group)
    files, labels = workload.assign_names(rng, docs)
    prefix = "o%d/" % index
    files = {prefix + name: data for name, data in files.items()}
    flags, scheme = workload.draw_config_flags(rng)
    coe = rng.random() < 0.4
    if coe:
        flags = ["--continue-on-error"] + flags
    paths = sorted(files)
    rng.shuffle(paths)
    if rng.random() < 0.2:
        paths_arg = ["o%d" % index] if all("/" not in p[len(prefix) :] for p in paths) else ["-r", "o%d" % index]
    else:
        paths_arg = paths
    return {
        "kind": "cli-" + mode,
        "mode": mode,
        "flags": flags,
        "coe": coe,
        "files": workload.files_to_spec(files),
        "docs": sorted(files),
        "labels": {prefix + n: lab for n, lab in labels.items()},
        "op": {"kind": "cli", "argv": flags + [mode] + paths_arg},
    }


def _gen_api_op(rng, index, group, first):
    prefix = "o%d/" % index
    call_kind = rng.choice(["scan_path", "scan_path", "scan_string", "fix_string", "fix_path", "list_path"])
    build = []
    for _ in range(rng.choice([0, 0, 1, 2])):
        build.append(rng.choice(API_BUILDERS))
    files = {}
    labels = {}
    if call_kind in ("scan_path", "fix_path", "list_path"):
        docs = workload.draw_docs(rng, rng.choice([1, 2, 3]), prefer_group=group)
        named, labs = workload.assign_names(rng, docs)
        named = {n: d for n, d in named.items() if "/" not in n} or {"a.md": docs[0][1]}
        files = {prefix + n: d for n, d in named.items()}
        labels = {prefix + n: labs.get(n, "?") for n in named}
        target = "o%d" % index if rng.random() < 0.6 else sorted(files)[0]
        call = [call_kind, [target], {}]
    else:
        docs = workload.draw_docs(rng, 1, prefer_group=group)
        text = docs[0][1]
        try:
            string = text.decode("utf-8")
        except UnicodeDecodeError:
            string = "# T\n"
        if not string.strip():
            string = "# T\n\ntext  \n"
        # the file-based entry points read with universal newlines; a str has
        # no such layer, so keep the string free of CR to compare like with like
        string = string.replace("\r\n", "\n").replace("\r", "\n")
        labels = {"<string>": docs[0][0]}
        call = [call_kind, [string], {}]
    return {
        "kind": "api-" + call_kind,
        "mode": "fix" if call_kind.startswith("fix") else "scan",
        "files": workload.files_to_spec(files),
        "docs": sorted(files),
        "labels": labels,
        "build": build,
        "op": {"kind": "api", "new": first, "build": build, "call": call},
    }


SWEEP_FOLLOWERS = ["h_atx", "ul_star", "fence_back", "bq_starts", "ws_trailing", "in_emph_space", "lrd_use", "pr_victim", "edge_one_line", "h_setext", "ol_ordered", "in_html"]
CHAIN_WIDTH = 10
ALL_OPTIONAL = ["-e", "md002,md006,pml100,pml101"]
# settings that switch on the more stateful code paths of several rules (tracking of code
# blocks, required headings, proper names ...): a third of the chains runs under them
SENSITIVE_CONFIG = [
    "-e", "md002,md006,pml100,pml101",
    "--set", "plugins.md010.code_blocks=$!False",
    "--set", "plugins.md013.code_blocks=$!False",
    "--set", "plugins.md013.headings=$!False",
    "--set", "plugins.md044.names=Title,Big,Links,Uses",
    "--set", "plugins.md044.code_blocks=$!False",
    "--set", "plugins.md043.headings=# T,*",
    "--set", "plugins.md029.style=ordered",
    "--set", "plugins.md033.allowed_elements=b",
    "--set", "plugins.md024.siblings_only=$!True",
]


def chain_plan(tier):
    """Deterministic enumeration of (carrier a, consumers b1..bk, mode, flags)
    chains: the invocation processes a b1 a b2 ... a bk, so every ordered pair
    (a,bi) and (bi,a) is adjacent once.  quick: hand-written carrier pool
    (exhaustive over its ordered pairs); thorough: the whole pool."""
    from .. import carriers as carriers_module
    from .. import corpus

    docs = corpus.load()
    usable = corpus.usable(docs, avoid=("hang", "parse_error", "undecodable", "slow", "plugin_error"))
    if tier == "quick":
        pool = [n for n in usable if n in carriers_module.CARRIERS and docs[n].tags.get("lines", 0) < 200]
    else:
        pool = [n for n in usable if docs[n].tags.get("lines", 0) < 200]
    plan = []
    for mode in ("scan", "fix"):
        for a_index, a_name in enumerate(pool):
            followers = pool
            if tier == "quick" and mode == "fix":
                # quick: fix-mode pairs inside one state group only (all pairs in scan mode;
                # the thorough tier has all pairs in both modes)
                followers = [n for n in pool if docs[n].group == docs[a_name].group]
            for start in range(0, len(followers), CHAIN_WIDTH):
                plan.append((mode, a_name, followers[start : start + CHAIN_WIDTH], (a_index + start // CHAIN_WIDTH) % 2 == 1, None))
    # "dirty" chains: every `a` is cut short by an injected exception in the middle
    # of its token (or line) dispatch, after all built-in rules have seen half of
    # the document; with --continue-on-error the following b must still equal its
    # solo run.  A rule whose per-file reset is incomplete is only visible like this
    # when its state is self-cleaning over a complete document (stacks that unwind).
    carriers_only = [n for n in usable if n in carriers_module.CARRIERS and docs[n].tags.get("lines", 0) < 200]
    dirty_pool = carriers_only if tier == "quick" else pool
    for a_index, a_name in enumerate(carriers_only):
        followers = dirty_pool
        if tier == "quick":
            # quick: followers of the same state group plus a fixed diverse set
            followers = [n for n in carriers_only if docs[n].group == docs[a_name].group or n in SWEEP_FOLLOWERS]
        for start in range(0, len(followers), CHAIN_WIDTH):
            for phase in (("token", "line", "prov") if tier == "quick" else (("token", "line", "prov")[(a_index + start // CHAIN_WIDTH) % 3],)):
                plan.append(("scan", a_name, followers[start : start + CHAIN_WIDTH], False, phase))
    # natural failures: documents on which the pinned parser fails by itself, each in a
    # different internal state (queued lines, registered definitions, collected pragmas)
    for natural_name in sorted(carriers_module.NATURAL_PARSER_FAIL):
        natural_followers = [n for n in carriers_only if docs[n].group in ("lrd", "pragma", "heading", "quote") or n in SWEEP_FOLLOWERS]
        if tier != "quick":
            natural_followers = carriers_only
        for start in range(0, len(natural_followers), CHAIN_WIDTH):
            plan.append(("scan", "@" + natural_name, natural_followers[start : start + CHAIN_WIDTH], False, "natural"))
    # "sweep" chains: a(t) b a(t+1) b ... - the i-th copy of the carrier is cut short at
    # its (t+i)-th token / line, always followed by the same follower, so that EVERY
    # dispatch ordinal of the carrier is the abort point once per follower (state that is
    # dirty only inside one element - a heading, a fence, a list item - needs the abort
    # to land exactly there)
    followers = [n for n in SWEEP_FOLLOWERS if n in carriers_only]
    if tier == "quick":
        followers = followers[:2]
    for a_name in carriers_only:
        units = max(1, docs[a_name].tags.get("lines", 1))
        for follower in followers:
            for phase in ("token", "line"):
                # tokens per document are roughly 3 per line; lines phase needs fewer chains
                span = min(60, units * (4 if phase == "token" else 1) + 2)
                for start_ordinal in range(1, span + 1, CHAIN_WIDTH):
                    plan.append(("scan", a_name, [follower] * CHAIN_WIDTH, False, ("sweep", phase, start_ordinal)))
    # "first construct" chains: a(t) f1 a(t) f2 ... with EVERY first-construct follower
    # (carriers.FIRST_CONSTRUCT) behind the same abort point t, for every token / line
    # ordinal t of the carrier: a per-file field that is dirty only inside one element is
    # consulted by the follower's first element before anything re-establishes it
    # (tools/witness_search.py is where the follower set comes from)
    fc_followers = ["%" + name for name in sorted(carriers_module.FIRST_CONSTRUCT)]
    fc_preds = [n for n in FC_PREDECESSORS if n in carriers_only] if tier == "quick" else [n for n in carriers_only if docs[n].tags.get("lines", 0) < 60]
    counts = _carrier_counts()
    for a_name in fc_preds:
        estimate = {"token": docs[a_name].tags.get("lines", 1) * 3 + 2, "line": docs[a_name].tags.get("lines", 1) + 1}
        for phase in ("token", "line"):
            for ordinal in range(1, min(80, counts.get(a_name, estimate)[phase]) + 1):
                for config in ("optional", "sensitive"):
                    plan.append(("scan", a_name, fc_followers, config, ("at", phase, ordinal)))
    return plan


FC_PREDECESSORS = [
    "lrd_def", "lrd_partial_eof2", "h_setext", "h_setext_indented_punct", "h_atx_closed", "h_spaces", "h_punct", "h_emph",
    "h_dup_a", "ul_mixed", "ol_ordered", "ol_bad", "ul_nested_open", "list_no_blank", "fence_back", "fence_no_blank",
    "code_indented", "code_dollar", "bq_blank_inside", "bq_list", "ws_tabs", "ws_long_code", "in_emph_space", "in_html",
    "html_div_start", "in_unclosed", "in_hr_dash", "pr_disable_enable", "fm_valid", "edge_crlf",
]  # fmt: skip


def _carrier_counts():
    try:
        with open(os.path.join(os.path.dirname(os.path.dirname(os.path.dirname(os.path.abspath(__file__)))), "corpus", "carrier_counts.json")) as handle:
            return json.load(handle)
    except (OSError, ValueError):
        return {}


_PLAN_CACHE = {}


def _gen_chain(tier, index):
    from .. import corpus

    if tier not in _PLAN_CACHE:
        _PLAN_CACHE[tier] = chain_plan(tier)
    entry = _PLAN_CACHE[tier][index]
    if isinstance(entry[3], str):
        return chain_from_entry(entry, entry[3])
    return chain_from_entry(entry, "sensitive" if index % 3 == 2 else ("optional" if entry[3] else "default"))


def _document(name):
    """plan names: pool document, @natural parser failure, %first-construct follower"""
    from .. import carriers as carriers_module
    from .. import corpus

    if name.startswith("@"):
        return carriers_module.NATURAL_PARSER_FAIL[name[1:]]
    if name.startswith("%"):
        return carriers_module.FIRST_CONSTRUCT[name[1:]]
    return corpus.load()[name].data


def chain_from_entry(entry, config):
    mode, a_name, b_names, _, dirty = entry
    files, labels = {}, {}
    position = 0
    for b_name in b_names:
        for name in (a_name, b_name):
            path = "f%03d.md" % position
            files[path] = _document(name)
            labels[path] = name
            position += 1
    flags = {"default": [], "optional": list(ALL_OPTIONAL), "sensitive": list(SENSITIVE_CONFIG)}[config]
    flags = ["--continue-on-error"] + flags
    if dirty:
        flags += workload.probe_flags(["zzz999"])
    op = {
        "kind": "cli-" + mode,
        "mode": mode,
        "flags": flags,
        "coe": True,
        "files": workload.files_to_spec(files),
        "docs": sorted(files),
        "labels": labels,
        "op": {"kind": "cli", "argv": flags + [mode] + sorted(files)},
    }
    sc = {"cls": [0, "utf8"], "world": dict(NEUTRAL_WORLD), "shape": "chain", "group": None, "ops": [op], "plan": [], "chain": [a_name, b_names]}
    if dirty:
        sc["shape"] = "dirty-chain"
        # token / line: exception at the last rule in dispatch order, after every
        # built-in rule has seen that token / line; prov: the parser itself fails from
        # inside its main loop, at a read of the document's middle line
        if dirty == "natural":
            # no injection: the a files fail by themselves; they are treated like faulted files
            sc["shape"] = "natural-failure-chain"
            sc["natural_files"] = [path for path in sorted(files) if labels[path] == a_name]
            return sc
        sweep_start, sweep_step = None, 1
        if isinstance(dirty, (tuple, list)):
            # ("sweep", phase, t): the i-th copy is cut at t+i; ("at", phase, t): every copy at t
            sweep_step = 1 if dirty[0] == "sweep" else 0
            _, dirty, sweep_start = dirty
        site_name = {"token": "cb/zzz999/next_token", "line": "cb/zzz999/next_line", "prov": "prov"}[dirty]
        # how many tokens / lines / provider reads the carrier has: dry run of the carrier
        # alone under the same flags (every copy in the chain is processed identically)
        first = sorted(files)[0]
        dry_request = {
            "files": {first: op["files"][first]},
            "world": dict(NEUTRAL_WORLD),
            "cpu": 60,
            "ops": [{"kind": "cli", "argv": flags + [mode, first]}],
            "record_sites": True,
        }
        dry = cached_run(dry_request, sc["cls"])
        if done(dry):
            count = 0
            for site in dry["result"]["sites"]:
                if site[0] == site_name and site[1] == first:
                    count = max(count, site[2])
            a_files = [path for path in sorted(files) if labels[path] == a_name and sorted(files).index(path) % 2 == 0]
            for position, path in enumerate(a_files):
                if not count:
                    continue
                ordinal = max(1, (count + 1) // 2) if sweep_start is None else sweep_start + position * sweep_step
                if ordinal > count and sweep_step == 0:
                    ordinal = (ordinal - 1) % count + 1  # stale count table: wrap around
                if ordinal > count:
                    continue  # the document has fewer tokens / lines than that
                sc["plan"].append({"site": site_name, "file": path, "ord": ordinal, "act": "raise_after" if dirty != "prov" else "raise", "exc": "RuntimeError", "op": 0})
            if sweep_start is not None:
                sc["shape"] = "sweep-chain" if sweep_step else "first-construct-chain"
    return sc


def witness_task(entry, config):
    """tools/witness_search.py: one explicit chain, every differing file reported"""
    scenario = chain_from_entry(tuple(entry), config)
    scenario["report_all"] = True
    if scenario["shape"] != "natural-failure-chain" and not scenario.get("plan"):
        return {"violations": [], "empty": True}
    outcome = evaluate(scenario)
    return {"violations": outcome["violations"], "empty": False}


def chain_count(tier):
    if tier not in _PLAN_CACHE:
        _PLAN_CACHE[tier] = chain_plan(tier)
    return len(_PLAN_CACHE[tier])


def _gen_after_failed_fix(rng):
    """One API object (or several CLI invocations in one process): a fix that fails in
    the middle of rebuilding a document, then fixes of documents that need token-level
    fixes.  The later results must not depend on the failed one."""
    from .. import corpus

    docs = corpus.load()
    followers = ["h_spaces", "ul_indent_bad", "ol_space2", "ul_space2", "h_skip", "fence_tilde", "ul_mixed", "h_setext_indented"]
    ops = []
    use_api = rng.random() < 0.6
    sequence = [rng.choice(followers), "nat_regen_fail"] + [rng.choice(followers) for _ in range(rng.choice([1, 2]))]
    if rng.random() < 0.5:
        sequence = sequence[1:]
    first_api = True
    for k, doc_name in enumerate(sequence):
        name = "o%d/a.md" % k
        data = docs[doc_name].data
        if use_api:
            if rng.random() < 0.5 and doc_name != "nat_regen_fail":
                call = ["fix_string", [data.decode("utf-8")], {}]
                files = {}
            else:
                call = ["fix_path", [name], {}]
                files = {name: data}
            ops.append(
                {
                    "kind": "api-" + call[0],
                    "mode": "fix",
                    "files": workload.files_to_spec(files),
                    "docs": sorted(files),
                    "labels": {name: doc_name} if files else {"<string>": doc_name},
                    "build": [],
                    "op": {"kind": "api", "new": first_api, "build": [], "call": call},
                }
            )
            first_api = False
        else:
            ops.append(
                {
                    "kind": "cli-fix",
                    "mode": "fix",
                    "flags": [],
                    "coe": False,
                    "files": workload.files_to_spec({name: data}),
                    "docs": [name],
                    "labels": {name: doc_name},
                    "op": {"kind": "cli", "argv": ["fix", name]},
                }
            )
    return {"cls": workload.draw_class(rng), "world": workload.draw_world(rng), "shape": "after-failed-fix", "group": None, "ops": ops, "plan": []}


def _gen_plugin_dirs(rng):
    """Two invocations in one process that load rule plugins from two directories which
    both contain a module of the same name (with different behaviour): the second
    invocation must run the file it names."""
    ops = []
    first_dir, second_dir = rng.choice([("alt_a", "alt_b"), ("alt_a", "alt_b"), ("alt_b", "alt_a")])
    doc = b"# T\n\nVP-TWIN\nVP-HELPER\n"
    for k, plugin in enumerate(["<P>/%s/vpa001.py" % first_dir if first_dir == "alt_a" else "<P>/alt_a/vpa001.py", "<P>/%s/vpt002.py" % second_dir]):
        name = "o%d/a.md" % k
        flags = ["--add-plugin", plugin]
        ops.append(
            {
                "kind": "cli-scan",
                "mode": "scan",
                "flags": flags,
                "coe": False,
                "files": workload.files_to_spec({name: doc}),
                "docs": [name],
                "labels": {name: "twin-marker"},
                "op": {"kind": "cli", "argv": flags + ["scan", name]},
            }
        )
    return {"cls": workload.draw_class(rng), "world": workload.draw_world(rng), "shape": "plugin-dirs", "group": None, "ops": ops, "plan": []}


def generate(rng, tier, index):
    # scenario order: seeded histories first, then the (dirty, then plain) chains,
    # so that a wall-capped run still samples every shape
    if index >= HISTORIES[tier]:
        total = chain_count(tier)
        chain_index = index - HISTORIES[tier]
        # the dirty chains sit at the end of the plan: serve them first
        plain = sum(1 for entry in _PLAN_CACHE[tier] if entry[4] is None)
        dirty = total - plain
        return _gen_chain(tier, plain + chain_index if chain_index < dirty else chain_index - dirty)
    if rng.random() < 0.04:
        return _gen_plugin_dirs(rng)
    if rng.random() < 0.06:
        return _gen_after_failed_fix(rng)
    shape = rng.choice(["single-multi", "cli-seq", "cli-seq", "api-seq", "api-seq", "mixed"])
    group = workload.draw_group(rng) if rng.random() < 0.7 else None
    ops = []
    if shape == "single-multi":
        op = _gen_cli_op(rng, 0, group, 0.5)
        ops.append(op)
    elif shape == "cli-seq":
        for i in range(rng.choice([2, 3, 4])):
            ops.append(_gen_cli_op(rng, i, group, 0.35))
    elif shape == "api-seq":
        for i in range(rng.choice([2, 3, 4])):
            ops.append(_gen_api_op(rng, i, group, i == 0))
    else:
        api_first = True
        for i in range(rng.choice([2, 3, 4])):
            if rng.random() < 0.5:
                ops.append(_gen_cli_op(rng, i, group, 0.35))
            else:
                ops.append(_gen_api_op(rng, i, group, api_first))
                api_first = False
    sc = {
        "cls": workload.draw_class(rng),
        "world": workload.draw_world(rng),
        "shape": shape,
        "group": group,
        "ops": ops,
        "plan": [],
    }
    # (d) an earlier operation with an injected, contained fault
    if len(ops) >= 2 and rng.random() < 0.35:
        dry = cached_run(_history_request(sc, record_sites=True), sc["cls"])
        if done(dry):
            victim = rng.randrange(len(ops) - 1)
            sites = [s for s in dry["result"]["sites"] if s[3] == victim and (s[0].startswith("cb/") or s[0] in ("parse", "prov"))]
            if sites:
                site = rng.choice(sites)
                if site[0].startswith("cb/"):
                    act, exc = rng.choice(["raise", "raise_after"]), rng.choice(["RuntimeError", "IndexError", "AssertionError"])
                elif site[0] == "parse":
                    act, exc = "badtok", None
                else:
                    act, exc = "raise", "RuntimeError"
                entry = {"site": site[0], "file": site[1], "ord": site[2], "act": act, "op": victim}
                if exc:
                    entry["exc"] = exc
                sc["plan"] = [entry]
    return sc


def _all_files(sc):
    files = {}
    for op in sc["ops"]:
        files.update(op["files"])
    return files


def _history_request(sc, record_sites=False):
    request = {"files": _all_files(sc), "world": sc["world"], "cpu": 60, "ops": [op["op"] for op in sc["ops"]]}
    if sc.get("plan"):
        request["plan"] = sc["plan"]
    if record_sites:
        request["record_sites"] = True
    if sc.get("shape") in TRACED_SHAPES and not record_sites:
        request["record_cb"] = ["zzz999"]
    return request


TRACED_SHAPES = ("dirty-chain", "sweep-chain", "first-construct-chain")


def _probe_traces(reply):
    """file -> what the recording probe rule was handed while that file was being
    processed: [action, payload] with token digests, line texts and the line number the
    context showed at that moment."""
    traces = {}
    current = None
    for entry in (reply.get("result") or {}).get("log", []):
        if entry[0] == "fs" and entry[1] == "open-r" and entry[2] == "target":
            current = entry[3][4:]
        elif entry[0] == "cb" and entry[1] == "zzz999" and current is not None:
            traces.setdefault(current, []).append([entry[2], entry[3]])
    return traces


def _alone_request(sc, index):
    op = sc["ops"][index]
    rt_op = copy.deepcopy(op["op"])
    if rt_op["kind"] == "api":
        builds = []
        for earlier in sc["ops"][: index + 1]:
            if earlier["op"]["kind"] == "api":
                builds.extend(earlier["op"].get("build") or [])
        rt_op["new"] = True
        rt_op["build"] = builds
    return {"files": op["files"], "world": dict(NEUTRAL_WORLD), "cpu": 60, "ops": [rt_op]}


_TMP_NAME = re.compile(r"(<R>/tmp/)[A-Za-z0-9_.\-]+")


def _no_tmp_names(value):
    """Temp-file names are drawn from the world's seeded sequence and differ
    between the history and the reference execution; they are not results."""
    if isinstance(value, str):
        return _TMP_NAME.sub(r"\1<tmp>", value)
    if isinstance(value, dict):
        return {k: _no_tmp_names(v) for k, v in value.items()}
    if isinstance(value, list):
        return [_no_tmp_names(v) for v in value]
    return value


def _op_signature(op_result):
    return _no_tmp_names(
        {
            "exit": op_result.get("exit"),
            "exc": op_result.get("exc"),
            "stdout": op_result.get("stdout"),
            "stderr": op_result.get("stderr"),
            "api": op_result.get("api"),
        }
    )


def evaluate(sc):
    stats = collections.Counter()
    out = []
    evals = 1
    history = run(_history_request(sc), sc["cls"])
    value = event_digest(history)
    if history.get("status") in ("cpu", "wall"):
        # a hang that the same operations alone do not show is a carry-over effect
        alone_ok = all(done(cached_run(_alone_request(sc, i), sc["cls"])) for i in range(len(sc["ops"])))
        if alone_ok:
            out.append(violation("C13/hang-in-history", "C13/hang-in-history", {"status": history.get("status")}))
        return {"violations": out, "evals": evals + len(sc["ops"]), "digests": [(value, False)], "stats": {"history_timeout": 1}, "faults": {}, "skipped": not alone_ok}
    if not done(history):
        return {"violations": [], "evals": evals, "digests": [(value, False)], "stats": {"history_not_done": 1}, "faults": {}, "skipped": True}
    result = history["result"]
    tree = tree_bytes(history)
    faulted_ops = {entry.get("op") for entry in sc.get("plan") or []}
    fired = len(result.get("fired") or [])
    kinds = [op["kind"] for op in sc["ops"]]
    if sum(1 for k in kinds if k.startswith("cli")) >= 2:
        stats["history_cli_multi_invocation"] += 1
    if sum(1 for k in kinds if k.startswith("api")) >= 2:
        stats["history_api_reuse"] += 1
    if fired:
        stats["history_with_fault"] += 1
    if sc.get("group"):
        stats["carrier_pair_same_group"] += 1
    ext_sets = {tuple(sorted(f for f in (op.get("flags") or []) if isinstance(f, str) and f.startswith("extensions."))) for op in sc["ops"]}
    if len(ext_sets) > 1:
        stats["extension_toggled"] += 1
    documents = 0
    seen_exception = False
    for index, op in enumerate(sc["ops"]):
        got = result["ops"][index]
        documents += max(1, len(op["docs"]))
        if op["kind"].startswith("api") and seen_exception:
            stats["api_after_exception"] += 1
        if (got.get("api") or {}).get("type") == "exception":
            seen_exception = True
        faulted_files = {entry["file"] for entry in (sc.get("plan") or []) if entry.get("op", 0) == index} | set(sc.get("natural_files") or [])
        if index in faulted_ops or sc.get("natural_files"):
            # only the file level can be judged, and only with --continue-on-error:
            # every file without a fault must still equal its solo run
            if not (op["kind"].startswith("cli") and op.get("coe") and len(op["docs"]) >= 2):
                continue
            alone = history
        elif len(sc["ops"]) == 1 and sc["world"] == NEUTRAL_WORLD:
            alone = history
        else:
            alone = cached_run(_alone_request(sc, index), sc["cls"])
            evals += 1
        if not done(alone):
            stats["alone_unusable"] += 1
            continue
        want = alone["result"]["ops"][0] if alone is not history else got
        got_sig, want_sig = _op_signature(got), _op_signature(want)
        if op["kind"].startswith("api"):
            # an API call returns its results; what appears on the process's stdout/stderr
            # is log output (WARNING by default), which follows the FIRST stream the logging
            # system was bound to - diagnostics, not compared
            for signature in (got_sig, want_sig):
                signature["stdout"], signature["stderr"] = "", ""
        if got_sig != want_sig:
            field = next(k for k in ("exit", "exc", "api", "stdout", "stderr") if got_sig[k] != want_sig[k])
            out.append(
                violation(
                    "C13/op-differs-from-alone",
                    "C13/op-differs-from-alone|%s|%s" % (op["kind"], field),
                    {"op_index": index, "kind": op["kind"], "field": field, "got": repr(got_sig[field])[:600], "want": repr(want_sig[field])[:600], "labels": op["labels"]},
                )
            )
            continue
        alone_tree = tree_bytes(alone)
        for name in op["docs"]:
            if tree.get(name) != alone_tree.get(name):
                out.append(
                    violation(
                        "C13/op-bytes-differ-from-alone",
                        "C13/op-bytes-differ-from-alone|%s" % op["kind"],
                        {"op_index": index, "file": name, "got": repr(tree.get(name))[:300], "want": repr(alone_tree.get(name))[:300]},
                    )
                )
                break
        # file level: multi-file CLI operations
        if op["kind"].startswith("cli") and len(op["docs"]) >= 2:
            stats["multi_file_op"] += 1
            view = OpView(want)
            if view.exc or any(marker in view.stderr for marker in ("Unexpected Error", "Configuration Error", " encountered while scanning ")):
                continue  # the operation was cut short at the failing file (no --continue-on-error)
            traced = sc.get("shape") in TRACED_SHAPES
            history_traces = _probe_traces(history) if traced else {}
            for name in op["docs"]:
                if name in faulted_files:
                    continue
                solo_request = {
                    "files": {name: op["files"][name]},
                    "world": dict(NEUTRAL_WORLD),
                    "cpu": 30,
                    "ops": [{"kind": "cli", "argv": op["flags"] + [op["mode"], name]}],
                }
                if traced:
                    solo_request["record_cb"] = ["zzz999"]
                solo_reply = cached_run(solo_request, sc["cls"])
                evals += 1
                if not done(solo_reply):
                    stats["solo_unusable"] += 1
                    continue
                solo_view = OpView(solo_reply["result"]["ops"][0])
                if solo_view.exc or any(marker in solo_view.stderr for marker in ("Unexpected Error", "Configuration Error", " encountered while scanning ")):
                    continue
                if view.per_file(name) != solo_view.per_file(name):
                    position = op["docs"].index(name)
                    out.append(
                        violation(
                            "C13/file-differs-from-solo",
                            "C13/file-differs-from-solo|%s|output" % op["mode"],
                            {
                                "op_index": index,
                                "file": name,
                                "document": op["labels"].get(name),
                                "previous_document": op["labels"].get(op["docs"][position - 1]) if position else None,
                                "got": view.per_file(name),
                                "want": solo_view.per_file(name),
                            },
                        )
                    )
                    if sc.get("report_all"):
                        continue
                    break
                if traced:
                    stats["callback_traces_compared"] += 1
                    got_trace, want_trace = history_traces.get(name, []), _probe_traces(solo_reply).get(name, [])
                    if got_trace != want_trace:
                        first = next((i for i, (a, b) in enumerate(zip(got_trace, want_trace)) if a != b), min(len(got_trace), len(want_trace)))
                        out.append(
                            violation(
                                "C13/file-differs-from-solo",
                                "C13/file-differs-from-solo|%s|callback-trace" % op["mode"],
                                {
                                    "op_index": index,
                                    "file": name,
                                    "document": op["labels"].get(name),
                                    "first_difference_at": first,
                                    "in_history": got_trace[first : first + 2],
                                    "alone": want_trace[first : first + 2],
                                },
                            )
                        )
                        break
                if alone_tree.get(name) != tree_bytes(solo_reply).get(name):
                    out.append(
                        violation(
                            "C13/file-differs-from-solo",
                            "C13/file-differs-from-solo|%s|bytes" % op["mode"],
                            {"op_index": index, "file": name, "got": repr(alone_tree.get(name))[:300], "want": repr(tree_bytes(solo_reply).get(name))[:300]},
                        )
                    )
                    break
    stats["shape:" + sc["shape"]] += 1
    if sc["shape"] in TRACED_SHAPES:
        stats["dirty_chain_faults_fired"] += fired
    faults = {}
    if sc.get("plan"):
        faults[sc["plan"][0]["site"].split("/")[0]] = [1, fired]
    return {"violations": out, "evals": evals, "digests": [(value, documents >= 3)], "stats": dict(stats), "faults": faults}


def reductions(sc):
    # drop an operation (renumbering the fault plan)
    for index in range(len(sc["ops"])):
        if len(sc["ops"]) <= 1:
            break
        if any(entry.get("op") == index for entry in sc.get("plan") or []):
            continue
        candidate = copy.deepcopy(sc)
        removed = candidate["ops"].pop(index)
        if removed["op"]["kind"] == "api" and removed["op"].get("new"):
            for later in candidate["ops"]:
                if later["op"]["kind"] == "api":
                    later["op"]["new"] = True
                    break
        for entry in candidate.get("plan") or []:
            if entry.get("op", 0) > index:
                entry["op"] -= 1
        yield candidate
    if sc.get("plan"):
        candidate = copy.deepcopy(sc)
        candidate["plan"] = []
        yield candidate
    # drop a file from a CLI op that names its files explicitly
    for index, op in enumerate(sc["ops"]):
        if not op["kind"].startswith("cli") or len(op["docs"]) <= 1:
            continue
        for name in op["docs"]:
            if name not in op["op"]["argv"]:
                continue
            candidate = copy.deepcopy(sc)
            target = candidate["ops"][index]
            del target["files"][name]
            target["docs"].remove(name)
            target["op"]["argv"].remove(name)
            yield candidate
    if sc["world"] != NEUTRAL_WORLD:
        candidate = copy.deepcopy(sc)
        candidate["world"] = dict(NEUTRAL_WORLD)
        yield candidate
    if sc["cls"] != [0, "utf8"]:
        candidate = copy.deepcopy(sc)
        candidate["cls"] = [0, "utf8"]
        yield candidate
    # drop flags of CLI ops
    for index, op in enumerate(sc["ops"]):
        if not op["kind"].startswith("cli"):
            continue
        flags = op["flags"]
        position = 0
        while position < len(flags):
            width = 2 if flags[position] in ("--return-code-scheme", "--set", "-d", "-e", "--add-plugin") else 1
            candidate = copy.deepcopy(sc)
            target = candidate["ops"][index]
            target["flags"] = flags[:position] + flags[position + width :]
            target["op"]["argv"] = target["flags"] + op["op"]["argv"][len(flags) :]
            yield candidate
            position += width
    # shorter documents
    for index, op in enumerate(sc["ops"]):
        for name in op["docs"]:
            data = unb64(op["files"][name]["b64"])
            for smaller in workload.shrink_bytes_candidates(data, limit=8):
                candidate = copy.deepcopy(sc)
                candidate["ops"][index]["files"][name] = {"b64": b64(smaller)}
                yield candidate
