"""C14 - the rule engine honours the plugin life-cycle for every file.

The call log of recording rules (probe plugins at three dispatch positions and
a few built-in rules, observed at the wrapped callbacks) is checked against a
small reference automaton.  Its inputs are taken at *other* seams of the same
execution: the bytes of the file at the moment it was opened for reading (audit
hook) and the token list the parser returned (parser-entry wrapper).

  scan : per file exactly   START TOKEN(t1..tn) LINE(1,l1)..LINE(m,lm) COMPLETE(m+1)
  fix  : per sub-pass (delimited by the reads of the file being processed)
         nothing | bare START | START TOKEN* COMPLETE(-1) | START TOKEN* LINE* COMPLETE(m+1)
         with complete/in-order payloads; token and line sub-pass alternate;
         a fix-capable rule takes part in the first pass of every file
  disabled rule: no callback at all
"""

import collections
import copy
import hashlib
import json
import re

from .. import workload
from ..common import NEUTRAL_WORLD, OpView, cached_run, done, event_digest, run, violation
from ..corpus import b64, unb64

PROP = "C14"
LEVEL = "exploration"
COUNTS = {"quick": 1000, "thorough": 20000}
WALL = {"quick": 900, "thorough": 6000}
RULE = (
    "scenario = seeded history of 1-3 CLI scan/fix operations over 1-4 pool documents (edge documents preferred: empty, one line, "
    "no final newline, pragma-only, CRLF, front matter) with 1-3 probe plugins (scan-only or fix-capable at a seeded level; one of "
    "them possibly disabled) and 0-2 recorded built-in rules; optionally one contained injected fault.  Non-trivial = at least one "
    "complete START..COMPLETE bracket was checked; distinct = distinct digest of the execution."
)
ASSUMPTIONS = [
    "expected tokens = the list the parser returned for that sub-pass (minus the trailing pragma token); expected lines = universal-newline decode of the bytes read, split on LF (the empty string after a final newline counts)",
    "in fix mode pass participation is not modelled: every sub-pass may be empty or a bare START for a rule; a fix-capable rule must take part in the first pass",
    "a bracket may be cut short only in the file where an injected fault fired",
]
PROBES = ["disabled_by_configuration_file", "scan_lines_vs_file_at_op_start", "same_file_histories", "documents_through_symlinks", "wildcard_disable_checked", "token_only_rule_sets", "fix_stream_vs_scan_checked", "scan_brackets_checked", "fix_token_brackets_checked", "fix_line_brackets_checked", "disabled_probe_checked", "empty_file", "no_final_newline", "pragma_token_stripped", "fix_with_token_fix", "probe_highest_level", "three_levels", "builtin_recorded", "fault_cut_short"]

EDGE_DOCS = [
    "edge_empty",
    "edge_one_line",
    "edge_one_line_noeol",
    "edge_crlf",
    "edge_crlf_noeol",
    "edge_lone_cr",
    "edge_mixed_eol",
    "edge_bom",
    "edge_utf8_3",
    "edge_formfeed",
    "edge_seps_tail",
    "edge_u2028",
    "edge_fs_gs_rs",
    "pr_only",
    "pr_bad",
    "pr_good",
    "pr_next_line_eof",
    "fm_valid",
    "fm_open",
    "vp_line",
    "vp_line_last",
    "vp_token",
    "vp_both",
    "vp_and_builtin",
    "ws_only_newlines",
    "ws_no_eol",
    "ws_trailing_eof",
]
LINE_RULES = ["md009", "md010", "md011", "md013", "md047"]  # the built-in rules that implement next_line
TOKEN_ONLY_RULES = ["md001", "md012", "md022", "md024", "md025", "md031", "md041", "md043", "md005", "md007"]
RECORD_BUILTINS = ["md001", "md009", "md010", "md012", "md013", "md022", "md027", "md031", "md044", "md047", "md005", "md007", "md048"]


def generate(rng, tier, index):
    from .. import corpus

    docs_all = corpus.load()
    n_ops = rng.choice([1, 1, 2, 3])
    probe_ids = rng.choice([["zzz999"], ["aaa000"], ["md016"], ["aaa000", "zzz999"], ["aaa000", "md016", "zzz999"]])
    probes = {}
    for pid in probe_ids:
        roll = rng.random()
        if roll < 0.35:
            probes[pid] = {"fix": False}
        else:
            used = {cfg.get("level") for cfg in probes.values() if cfg.get("fix")}
            probes[pid] = {"fix": True, "level": rng.choice([lv for lv in [0, 0, 1, 2, 3, 4, 5, 7] if lv not in used])}
    disabled = None
    if len(probe_ids) >= 2 and rng.random() < 0.4:
        disabled = rng.choice(probe_ids)
    disable_by_flag = rng.random() < 0.4
    disable_by_config = (not disable_by_flag) and rng.random() < 0.6
    config_files = {}
    config_flags = []
    if disabled and disable_by_config:
        how = rng.choice(["json", "yaml", "pyproject"])
        if how == "json":
            config_files[".pymarkdown"] = json.dumps({"plugins": {disabled: {"enabled": False}}}).encode()
        elif how == "yaml":
            config_files[".pymarkdown.yaml"] = ("plugins:\n  %s:\n    enabled: false\n" % disabled).encode()
        else:
            config_files["pyproject.toml"] = ("[tool.pymarkdown]\nplugins.%s.enabled = false\n" % disabled).encode()
        extra = rng.choice([None, "json", "yaml", "yaml"])
        if extra == "json":
            config_files["cfg/extra.json"] = json.dumps({"plugins": {"md013": {"line_length": 100}}}).encode()
            config_flags = ["--config", "cfg/extra.json"]
        elif extra == "yaml":
            config_files["cfg/extra.yaml"] = b"plugins:\n  md013:\n    line_length: 100\n"
            config_flags = ["--config", "cfg/extra.yaml"]
    builtins_mode = rng.choice(["default", "default", "disabled", "some", "token-only", "wildcard"])
    if builtins_mode == "token-only":
        # no enabled rule implements next_line: the engine must still complete the file
        probe_ids, probes, disabled = [], {}, None
    if builtins_mode == "wildcard":
        # `-d "*"` disables every rule, whatever -e says: nobody may be called
        probe_ids = rng.choice([["zzz999"], ["aaa000", "zzz999"]])
        probes = {pid: {"fix": rng.random() < 0.5, "level": 0} for pid in probe_ids}
        disabled = None
    recorded_builtins = rng.sample(RECORD_BUILTINS, rng.choice([0, 1, 2])) if builtins_mode not in ("disabled", "wildcard", "token-only") else []
    if builtins_mode == "token-only":
        recorded_builtins = rng.sample(TOKEN_ONLY_RULES, 3)
        if "md043" not in recorded_builtins and rng.random() < 0.7:
            recorded_builtins[0] = "md043"
    ops = []
    for k in range(n_ops):
        mode = rng.choice(["scan", "fix"])
        count = rng.choice([1, 1, 2, 3, 4])
        docs = []
        for _ in range(count):
            if rng.random() < 0.55:
                name = rng.choice(EDGE_DOCS)
                docs.append((name, docs_all[name].data))
            else:
                docs.extend(workload.draw_docs(rng, 1))
        files, labels = workload.assign_names(rng, docs)
        prefix = "o%d/" % k
        files = {prefix + n: d for n, d in files.items()}
        flags = workload.probe_flags(probe_ids)
        if builtins_mode == "disabled":
            flags += ["-d", "<BUILTINS>"]
        elif builtins_mode == "token-only":
            flags += ["-d", ",".join(LINE_RULES + rng.sample([r for r in workload.DISABLE_POOL if r not in recorded_builtins and r not in LINE_RULES], 2))]
            mode = "scan"
        elif builtins_mode == "wildcard":
            flags += ["-d", rng.choice(["*", "md047,*", "*,md001"]), "-e", ",".join(probe_ids + rng.sample(["md001", "md009", "md047"], 1))]
        elif builtins_mode == "some":
            pool = [r for r in workload.DISABLE_POOL if r not in recorded_builtins]
            flags += ["-d", ",".join(rng.sample(pool, 3))]
        flags = config_flags + flags
        if disabled and disable_by_flag:
            if "-d" in flags:
                position = flags.index("-d") + 1
                flags[position] = flags[position] + "," + disabled
            else:
                flags += ["-d", disabled]
        if rng.random() < 0.25:
            flags += ["--set", "extensions.front-matter.enabled=$!True"]
        if rng.random() < 0.5:
            flags = ["--continue-on-error"] + flags
        paths = sorted(files)
        rng.shuffle(paths)
        ops.append({"mode": mode, "flags": flags, "files": workload.files_to_spec(files), "docs": sorted(files), "labels": {prefix + n: lab for n, lab in labels.items()}, "paths": paths})
    if builtins_mode == "wildcard":
        recorded = []
    symlinks = {}
    if len(ops) >= 2 and rng.random() < 0.3:
        # the same documents are processed again and again (scan, fix, scan ...): what
        # the rules are handed must be the file as it is when each operation starts.
        # Some documents are named through a symbolic link.
        first = ops[0]
        shared_files, shared_paths = dict(first["files"]), list(first["paths"])
        if rng.random() < 0.5:
            renamed = {}
            for name in sorted(shared_files):
                if rng.random() < 0.6:
                    real = "real/" + name.replace("/", "_")
                    renamed[real] = shared_files[name]
                    symlinks[name] = real
                else:
                    renamed[name] = shared_files[name]
            shared_files = renamed
        modes = ["scan", "fix", "scan", "fix"]
        for position, op in enumerate(ops):
            op["files"] = shared_files if position == 0 else {}
            op["paths"] = list(shared_paths)
            op["docs"] = sorted(shared_paths)
            op["labels"] = dict(first["labels"])
            op["mode"] = modes[position % 4] if builtins_mode not in ("token-only",) else "scan"
            op["same_files"] = True
    sc = {
        "cls": workload.draw_class(rng),
        "world": workload.draw_world(rng),
        "ops": ops,
        "symlinks": symlinks,
        "wildcard": builtins_mode == "wildcard",
        "probes": probes,
        "disabled": disabled,
        "record": (sorted(probe_ids) + recorded_builtins) if builtins_mode != "wildcard" else [],
        "builtins_mode": builtins_mode,
        "plan": [],
    }
    if disabled and not disable_by_flag and not disable_by_config:
        sc["probes"][disabled] = dict(sc["probes"][disabled], enabled=False)
    sc["config_files"] = workload.files_to_spec(config_files)
    if disabled:
        sc["record"] = [r for r in sc["record"] if r != disabled]
    if rng.random() < 0.15:
        sc["want_fault"] = [rng.random(), rng.choice(["raise", "raise_after"]), rng.choice(["RuntimeError", "IndexError"])]
    return sc


def _argv(op, builtin_ids):
    flags = [",".join(builtin_ids) if f == "<BUILTINS>" else f for f in op["flags"]]
    return flags + [op["mode"]] + op["paths"]


def _request(sc, builtin_ids, plan=None, record_sites=False):
    files = {}
    ops = []
    files.update(sc.get("config_files") or {})
    for op in sc["ops"]:
        files.update(op["files"])
        ops.append({"kind": "cli", "argv": _argv(op, builtin_ids), "probes": sc["probes"]})
    request = {
        "files": files,
        "world": sc["world"],
        "cpu": 60,
        "ops": ops,
        "record_cb": sc["record"],
        "record_reads": True,
    }
    if sc.get("symlinks"):
        request["symlinks"] = sc["symlinks"]
    if plan:
        request["plan"] = plan
    if record_sites:
        request["record_sites"] = True
    return request


def _reference_stream(sc, op, builtin_ids, content):
    """Tokens a recording rule receives when `content` is scanned (pristine
    process, same extension settings): list of digests, or None."""
    flags = []
    source = op["flags"]
    index = 0
    while index < len(source):
        if source[index] == "--set":
            flags += ["--set", source[index + 1]]
            index += 2
        else:
            index += 1
    flags += ["--add-plugin", workload.PROBE_FILES["zzz999"], "-d", ",".join(builtin_ids)]
    request = {
        "files": {"ref.md": {"b64": b64(content)}},
        "world": dict(NEUTRAL_WORLD),
        "cpu": 30,
        "record_cb": ["zzz999"],
        "ops": [{"kind": "cli", "argv": flags + ["scan", "ref.md"], "probes": {"zzz999": {"fix": False}}}],
    }
    reply = cached_run(request, sc["cls"])
    if not done(reply):
        return None
    view = OpView(reply["result"]["ops"][0])
    if view.exc or view.err_other or view.err0:
        return None
    return [entry[3][0] for entry in reply["result"]["log"] if entry[0] == "cb" and entry[1] == "zzz999" and entry[2] == "next_token"]


def _universal_lines(data):
    text = data.decode("utf-8")
    text = text.replace("\r\n", "\n").replace("\r", "\n")
    return text.split("\n")


def _check_segment(events, mode, plugin, fixable, stats, where):
    """events: list of (action, payload, read_id, parse_id) of one plugin inside one
    sub-pass segment.  -> (shape, problem or None)"""
    actions = [e[0] for e in events]
    impl = where["impl"].get(plugin, list(ORDER))
    if not actions:
        return "empty", None
    if set(actions) == {"starting_new_file"}:
        # START(s) with nothing after: a pass the rule takes no part in
        return "bare", None
    if "starting_new_file" in impl:
        if actions.count("starting_new_file") > 1:
            return "bad", "starting_new_file delivered %d times in one sub-pass" % actions.count("starting_new_file")
        if actions[0] != "starting_new_file":
            return "bad", "%s delivered before starting_new_file" % actions[0]
    ranks = [ORDER[a] for a in actions]
    if ranks != sorted(ranks):
        return "bad", "callbacks out of order: %s" % _compress(actions)
    if "completed_file" in impl and actions.count("completed_file") != 1:
        return "bad", "completed_file delivered %d times" % actions.count("completed_file")
    tokens = [e for e in events if e[0] == "next_token"]
    lines = [e for e in events if e[0] == "next_line"]
    complete = events[-1] if events[-1][0] == "completed_file" else None
    anchor = tokens[0] if tokens else events[-1]
    expected_tokens = where["parses"].get(anchor[3])
    if expected_tokens is None:
        return "bad", "callbacks delivered although the parser was not invoked for this file"
    digests, last_pragma, parsed_text = expected_tokens
    got = [e[1][0] for e in tokens]
    if "next_token" not in impl:
        got = digests
    if last_pragma and got == digests[:-1]:
        digests = digests[:-1]
        stats["pragma_token_stripped"] += 1
    # (scan strips the trailing pragma token, the fix passes deliver it: the
    # statement does not say which, both are accepted)
    if mode == "fix" and "next_token" in impl and where.get("collect") is not None:
        # remember what was delivered for which bytes: compared later with what a
        # plain scan of the same bytes delivers (the same file must present the
        # same stream in every mode)
        # the text this sub-pass is a parse of: what the parser consumed (an implementation
        # may keep intermediate versions in memory); the last file read where that is unknown
        content = parsed_text.encode("utf-8", "surrogateescape") if parsed_text is not None else where["reads"].get(anchor[2])
        if content is not None:
            where["collect"].append((content, list(got), bool(last_pragma), plugin, where.get("cur_file")))
    if got != digests:
        return "bad", "token stream differs from the parser's: got %d tokens, parser returned %d (first difference at %s)" % (
            len(got),
            len(digests),
            next((i for i, (a, b) in enumerate(zip(got, digests)) if a != b), min(len(got), len(digests))),
        )
    complete_line = complete[1][0] if complete is not None else None
    if "next_line" not in impl:
        return ("line" if mode == "scan" else "noline"), None
    if not lines and mode == "fix":
        # token sub-pass of a fix pass (a line sub-pass always has >= 1 line)
        return "tok", None
    line_anchor = lines[0] if lines else events[-1]
    content = where["reads"].get(line_anchor[2])
    if mode == "fix":
        # the version of the document a fix sub-pass works on is the text of the most recent
        # parse (the pinned code writes every intermediate version to a file and re-reads
        # it; an implementation may as well keep it in memory)
        recent = where["parses"].get(line_anchor[3])
        if recent is not None and recent[2] is not None:
            content = recent[2].encode("utf-8", "surrogateescape")
            stats["fix_lines_vs_parsed_text"] += 1
    if mode == "scan":
        # a scan does not change the file: the lines must be those the file holds when
        # the operation starts, whether or not (and whenever) the code reads it
        at_start = where["snaps"].get(where["cur_op"], {}).get(where.get("cur_file"))
        if at_start is not None:
            if content is not None and content != at_start:
                return "bad", "lines differ from the file: the scan read other bytes than the file held when the operation started"
            content = at_start
            stats["scan_lines_vs_file_at_op_start"] += 1
    if content is None:
        return "bad", "lines delivered although no file was read"
    try:
        expected_lines = _universal_lines(content)
    except UnicodeDecodeError:
        return "skip", None
    got_lines = [(e[1][0], e[1][1]) for e in lines]
    want_lines = [(i + 1, text) for i, text in enumerate(expected_lines)]
    if mode == "fix":
        # in a fix pass the line text is piped through the fixing rules in
        # dispatch order, so only count and numbering are judged there
        got_lines = [(number, "") for number, _text in got_lines]
        want_lines = [(number, "") for number, _text in want_lines]
    if got_lines != want_lines:
        if [g[1] for g in got_lines] == [w[1] for w in want_lines]:
            return "bad", "line numbers wrong: delivered %s, expected 1..%d" % (_compress([str(g[0]) for g in got_lines]), len(want_lines))
        return "bad", "lines differ from the file: delivered %d lines, file has %d (first difference at index %s)" % (
            len(got_lines),
            len(want_lines),
            next((i for i, (a, b) in enumerate(zip(got_lines, want_lines)) if a != b), min(len(got_lines), len(want_lines))),
        )
    if mode == "scan" and complete_line is not None and complete_line != len(want_lines) + 1:
        return "bad", "completed_file line number %s, expected %d" % (complete_line, len(want_lines) + 1)
    if not content:
        stats["empty_file"] += 1
    elif not content.endswith((b"\n", b"\r")):
        stats["no_final_newline"] += 1
    return "line", None


def _split_brackets(segments, plugin, impl):
    """Sub-passes are delimited by reads of the file (that is how the pinned code works:
    every sub-pass re-opens the file) AND by a START that directly follows a COMPLETE:
    an implementation that reads the file once and rewinds the provider for the next
    sub-pass delivers well-formed brackets back to back inside one read.  A second START
    without a COMPLETE in between stays inside one bracket and is judged there."""
    closes = "completed_file" in impl
    for segment in segments:
        events = segment["events"].get(plugin, [])
        pieces, current = [], []
        for event in events:
            previous = current[-1][0] if current else None
            if event[0] == "starting_new_file" and current and (previous == "completed_file" or (not closes and previous != "starting_new_file")):
                pieces.append(current)
                current = []
            current.append(event)
        pieces.append(current)
        if len(pieces) == 1:
            yield segment
            continue
        for piece in pieces:
            yield {"file": segment["file"], "read": segment["read"], "events": {plugin: piece}}


ORDER = {"starting_new_file": 0, "next_token": 1, "next_line": 2, "completed_file": 3}


def _compress(items):
    out = []
    for item in items:
        if out and out[-1][0] == item:
            out[-1][1] += 1
        else:
            out.append([item, 1])
    return " ".join("%s*%d" % (a, n) if n > 1 else a for a, n in out)


def evaluate(sc):
    from ..common import builtin_rule_ids

    stats = collections.Counter()
    out = []
    builtin_ids = builtin_rule_ids()
    plan = None
    if sc.get("want_fault"):
        dry = run(_request(sc, builtin_ids, record_sites=True), sc["cls"])
        if done(dry):
            sites = [s for s in dry["result"]["sites"] if s[0].startswith("cb/")]
            if sites:
                site = sites[int(sc["want_fault"][0] * len(sites)) % len(sites)]
                plan = [{"site": site[0], "file": site[1], "ord": site[2], "op": site[3], "act": sc["want_fault"][1], "exc": sc["want_fault"][2]}]
    reply = run(_request(sc, builtin_ids, plan=plan), sc["cls"])
    value = event_digest(reply)
    if not done(reply):
        return {"violations": [], "evals": 1, "digests": [(value, False)], "stats": {"not_done": 1}, "faults": {}, "skipped": True}
    result = reply["result"]
    fired = bool(result.get("fired"))
    faulted_file = plan[0]["file"] if plan and fired else None
    faulted_op = plan[0]["op"] if plan and fired else None

    # walk the log: segments are delimited by reads of files under the run root
    reads, parses, snaps = {}, {}, {}
    per_op = collections.defaultdict(list)  # op -> list of segments; segment = {"file":..., "events": {pid: [...]}}
    current_op, read_id, parse_id = -1, 0, 0
    segment = None
    current_target = None
    for entry in result["log"]:
        kind = entry[0]
        if kind == "snap":
            snaps[current_op] = {name: (unb64(data) if data is not None else None) for name, data in entry[1].items()}
        elif kind == "op":
            current_op = entry[1]
            segment = None
            current_target = None
        elif kind == "fs":
            if entry[1] == "open-r" and len(entry) > 5:
                read_id += 1
                reads[read_id] = unb64(entry[5]) if entry[5] is not None else None
                if entry[2] == "target":
                    current_target = entry[3][4:]
                segment = {"file": current_target, "events": collections.defaultdict(list), "read": read_id}
                per_op[current_op].append(segment)
        elif kind == "parse":
            parse_id += 1
            parses[parse_id] = (entry[1], entry[2], entry[3] if len(entry) > 3 else None)
        elif kind == "cb":
            if segment is None:
                segment = {"file": current_target, "events": collections.defaultdict(list), "read": 0}
                per_op[current_op].append(segment)
            segment["events"][entry[1]].append((entry[2], entry[3], read_id, parse_id))
    where = {"reads": reads, "parses": parses, "impl": result.get("impl", {}), "collect": None, "snaps": snaps, "cur_op": 0}

    checked = 0
    for op_index, op in enumerate(sc["ops"]):
        mode = op["mode"]
        view = OpView(result["ops"][op_index])
        errored_files = set(view.err0) | set(re.findall(r" encountered while scanning '([^']+)':", view.stderr))
        aborted = bool(view.exc) or any(marker in view.stderr for marker in ("Unexpected Error", "Configuration Error", "BadPluginError encountered", "BadTokenizationError encountered"))
        where["collect"] = [] if mode == "fix" else None
        where["cur_op"] = op_index
        for plugin in sc["record"]:
            probe_cfg = sc["probes"].get(plugin)
            fixable = bool(probe_cfg.get("fix")) if probe_cfg is not None else None
            if probe_cfg is None:
                stats["builtin_recorded"] += 1
            shapes_by_file = collections.defaultdict(list)
            problem = None
            for segment in _split_brackets(per_op.get(op_index, []), plugin, where["impl"].get(plugin, list(ORDER))):
                events = segment["events"].get(plugin, [])
                where["cur_file"] = segment["file"]
                shape, issue = _check_segment(events, mode, plugin, fixable, stats, where)
                if shape == "bare":
                    stats["bare_start_segments"] += 1
                in_faulted = faulted_file is not None and segment["file"] == faulted_file and op_index == faulted_op
                if in_faulted:
                    stats["fault_cut_short"] += 1
                    shape, issue = "cut", None
                if segment["file"] in errored_files:
                    # a (natural) contained rule/parser error in this file cuts its brackets short
                    stats["natural_error_cut_short"] += 1
                    shape, issue = "cut", None
                if aborted and segment["file"] == (per_op[op_index][-1]["file"]):
                    # the run stopped in this file (error without --continue-on-error)
                    shape, issue = "cut", None
                if issue:
                    problem = (segment["file"], issue, _compress([e[0] for e in events]))
                    break
                shapes_by_file[segment["file"]].append(shape)
                if shape in ("tok", "line"):
                    checked += 1
                    stats[{"tok": "fix_token_brackets_checked", "line": "scan_brackets_checked" if mode == "scan" else "fix_line_brackets_checked"}[shape]] += 1
            if problem is None:
                for name in op["docs"]:
                    shapes = [s for s in shapes_by_file.get(name, []) if s not in ("empty",)]
                    if "cut" in shapes or "skip" in shapes:
                        continue
                    processed = name in shapes_by_file
                    if not processed:
                        continue  # run stopped before this file
                    if "noline" in shapes:
                        continue  # rule without next_line: sub-pass kinds cannot be told apart
                    real = [s for s in shapes if s in ("tok", "line")]
                    if mode == "scan":
                        if real != ["line"] or shapes != ["line"]:
                            problem = (name, "scan: expected exactly one START TOKEN* LINE* COMPLETE bracket, got sub-pass shapes %s" % (shapes,), "")
                            break
                    else:
                        if fixable is False or (probe_cfg is None and False):
                            if real:
                                problem = (name, "fix: a rule that offers no fix received tokens/lines: %s" % (shapes,), "")
                                break
                        expected_alternation = ["tok", "line"] * (len(real) // 2)
                        if real != expected_alternation:
                            problem = (name, "fix: token and line sub-passes do not alternate: %s" % (real,), "")
                            break
                        if fixable and not real and not aborted:
                            problem = (name, "fix: fix-capable rule took part in no pass of this file", "")
                            break
                        if len(real) >= 6:
                            stats["three_levels"] += 1
            if problem is not None:
                file_name, issue, seen = problem
                role = "probe" if probe_cfg is not None else "builtin"
                klass = issue.split(":")[0] if ":" in issue[:24] else issue[:40]
                out.append(
                    violation(
                        "C14/lifecycle",
                        "C14/lifecycle|%s|%s|%s" % (mode, role if probe_cfg is None or not probe_cfg.get("fix") else "fixprobe", _issue_class(issue)),
                        {"op_index": op_index, "plugin": plugin, "probe_cfg": probe_cfg, "file": file_name, "document": op["labels"].get(file_name), "problem": issue, "callbacks_seen": seen},
                    )
                )
        # fix sub-passes must present the stream a scan of the same bytes presents
        if where["collect"]:
            seen = set()
            cut_files = set(errored_files)
            if faulted_file is not None and op_index == faulted_op:
                cut_files.add(faulted_file)
            if aborted and per_op.get(op_index):
                cut_files.add(per_op[op_index][-1]["file"])
            for content, got, last_pragma, plugin, file_name in where["collect"]:
                if file_name in cut_files:
                    continue
                key = (content, tuple(got))
                if key in seen:
                    continue
                seen.add(key)
                reference = _reference_stream(sc, op, builtin_ids, content)
                if reference is None:
                    continue
                stats["fix_stream_vs_scan_checked"] += 1
                # a trailing pragma token may be delivered in fix passes - but only a document
                # that contains pragma lines has one
                has_pragma_lines = b"<!-- pyml" in content or b"<!--- pyml" in content or b"pyml " in content
                candidates = [got, got[:-1]] if (last_pragma and has_pragma_lines) else [got]
                if reference not in candidates:
                    out.append(
                        violation(
                            "C14/lifecycle",
                            "C14/lifecycle|fix|stream-differs-from-scan",
                            {
                                "op_index": op_index,
                                "plugin": plugin,
                                "delivered_tokens": len(got),
                                "scan_delivers": len(reference),
                                "first_difference": next((i for i, (a, b) in enumerate(zip(got, reference)) if a != b), min(len(got), len(reference))),
                                "content": repr(content)[:200],
                            },
                        )
                    )
                    break
        # `-d "*"`: every rule is disabled, nothing may be delivered to anybody
        if sc.get("wildcard"):
            stats["wildcard_disable_checked"] += 1
            calls = result["ops"][op_index].get("probe_calls", {})
            total = sum(calls.values())
            seen = result.get("impl", {})
            if total or seen:
                out.append(
                    violation(
                        "C14/disabled-rule-called",
                        "C14/disabled-rule-called|wildcard|%s" % mode,
                        {"op_index": op_index, "probe_calls": calls, "enabled_rules_seen": sorted(seen), "flags": op["flags"]},
                    )
                )
        # disabled rule receives nothing
        if sc.get("disabled"):
            calls = result["ops"][op_index].get("probe_calls", {}).get(sc["disabled"], 0)
            stats["disabled_probe_checked"] += 1
            if calls:
                out.append(violation("C14/disabled-rule-called", "C14/disabled-rule-called|%s" % mode, {"op_index": op_index, "plugin": sc["disabled"], "calls": calls}))
        if mode == "fix" and any(cfg.get("fix") for cfg in sc["probes"].values()):
            levels = [cfg.get("level", 0) for cfg in sc["probes"].values() if cfg.get("fix")]
            if levels and max(levels) >= 5:
                stats["probe_highest_level"] += 1
            if view.fixed:
                stats["fix_with_token_fix"] += 1
    if sc.get("config_files"):
        stats["disabled_by_configuration_file"] += 1
    if any(op.get("same_files") for op in sc["ops"]):
        stats["same_file_histories"] += 1
    if sc.get("symlinks"):
        stats["documents_through_symlinks"] += 1
    if sc.get("builtins_mode") == "token-only":
        stats["token_only_rule_sets"] += 1
    faults = {"cb": [1, 1 if fired else 0]} if plan else {}
    return {"violations": out, "evals": 2 if sc.get("want_fault") else 1, "digests": [(value, checked > 0)], "stats": dict(stats), "faults": faults}


def _issue_class(issue):
    for marker, name in (
        ("starting_new_file delivered", "start-repeated"),
        ("before starting_new_file", "no-start"),
        ("out of order", "order"),
        ("completed_file delivered", "complete-count"),
        ("token stream differs", "tokens"),
        ("parser was not invoked", "tokens"),
        ("line numbers wrong", "line-numbers"),
        ("lines differ", "lines"),
        ("completed_file line number", "complete-line-number"),
        ("expected exactly one", "scan-shape"),
        ("offers no fix", "nofix-called"),
        ("do not alternate", "alternation"),
        ("took part in no pass", "no-pass"),
    ):
        if marker in issue:
            return name
    return "other"


def reductions(sc):
    for index in range(len(sc["ops"])):
        if len(sc["ops"]) > 1:
            candidate = copy.deepcopy(sc)
            candidate["ops"].pop(index)
            yield candidate
    for index, op in enumerate(sc["ops"]):
        if len(op["docs"]) > 1:
            for name in op["docs"]:
                candidate = copy.deepcopy(sc)
                target = candidate["ops"][index]
                del target["files"][name]
                target["docs"].remove(name)
                target["paths"].remove(name)
                yield candidate
    if sc.get("want_fault"):
        candidate = copy.deepcopy(sc)
        del candidate["want_fault"]
        yield candidate
    if sc["world"] != NEUTRAL_WORLD:
        candidate = copy.deepcopy(sc)
        candidate["world"] = dict(NEUTRAL_WORLD)
        yield candidate
    if sc["cls"] != [0, "utf8"]:
        candidate = copy.deepcopy(sc)
        candidate["cls"] = [0, "utf8"]
        yield candidate
    for pid in sorted(sc["probes"]):
        if len(sc["probes"]) > 1:
            candidate = copy.deepcopy(sc)
            del candidate["probes"][pid]
            candidate["record"] = [r for r in candidate["record"] if r != pid]
            if candidate.get("disabled") == pid:
                candidate["disabled"] = None
            for op in candidate["ops"]:
                flags = op["flags"]
                if workload.PROBE_FILES[pid] in flags:
                    position = flags.index(workload.PROBE_FILES[pid])
                    del flags[position - 1 : position + 1]
            yield candidate
    for index, op in enumerate(sc["ops"]):
        for name in op["docs"]:
            data = unb64(op["files"][name]["b64"])
            for smaller in workload.shrink_bytes_candidates(data, limit=8):
                candidate = copy.deepcopy(sc)
                candidate["ops"][index]["files"][name] = {"b64": b64(smaller)}
                yield candidate
