"""C19 - file discovery selects exactly the documented set, once each, sorted.

Seeded directory trees on the real scratch file system, crossed with 1-3 path
arguments in several spellings, --recurse, --alternate-extensions, for
--list-files, scan, fix and PyMarkdownApi.list_path.  Directory-listing order,
hash seed and argument order are world parameters.  The oracle is a small
executable model of the user guide's rules evaluated on the same tree.
"""

import collections
import copy
import fnmatch
import posixpath

from .. import workload
from ..common import EXIT_TABLE, NEUTRAL_WORLD, OpView, done, event_digest, run, violation
from ..corpus import b64

PROP = "C19"
LEVEL = "exploration"
COUNTS = {"quick": 4000, "thorough": 60000}
WALL = {"quick": 900, "thorough": 6000}
RULE = (
    "scenario = seeded tree (depth <= 3, <= 14 entries: .md/.MD/.txt/.markdown/no extension, directories incl. one named like a file, "
    "names with glob characters, empty and hidden directories) x 1-3 path arguments (file, directory, ./ and dir/../ spellings, trailing "
    "slash, globs, absolute, missing, ineligible) x --recurse x --alternate-extensions x {--list-files, scan, fix, API list_path}; "
    "every scenario is executed with two argument orders.  Non-trivial = the model selects >= 1 file or predicts an error; distinct = "
    "distinct (tree, arguments, flags) digest."
)
ASSUMPTIONS = [
    "reference model: named eligible file; eligible files directly inside a named directory (all descendants with --recurse); glob expansion (non-recursive glob semantics, hidden names only for patterns starting with a dot) processed like named paths except that ineligible matches are skipped; any erroneous argument => nothing scanned and the no-files result",
    "two spellings of one file are compared as the same file (normalised path); the listing must be sorted as printed and free of duplicates",
    "files are tiny clean documents, so scan/fix order is observed through the order in which the documents are opened",
]
PROBES = ["directory_links", "directory_links_dotdot_argument", "trees_with_symlinks", "model_error_missing", "model_error_ineligible", "model_error_glob", "model_empty_selection", "dup_spellings", "recurse", "alt_ext", "glob_arg", "dir_named_like_file", "api_list_path", "cmd:scan", "cmd:fix", "cmd:list"]

DOC = b"# T\n"
FILE_NAMES = ["a.md", "b.md", "c.md", "B.MD", "notes.txt", "x.markdown", "README", "a[1].md", "q?.md", "qa.md", "s*r.md", "star.md", ".hidden.md", "z.md.bak", "md"]
DIR_NAMES = ["docs", "docs/sub", "docs/sub/deep", "x.md", "empty", ".hid", "other", "other/docs", "docs2", "docs-old", "doc", "docs2/sub"]


def gen_tree(rng):
    dirs = set()
    for name in rng.sample(DIR_NAMES, rng.randint(0, 5)):
        parts = name.split("/")
        for i in range(1, len(parts) + 1):
            dirs.add("/".join(parts[:i]))
    files = set()
    places = [""] + sorted(dirs)
    for _ in range(rng.randint(1, 9)):
        place = rng.choice(places)
        name = rng.choice(FILE_NAMES)
        path = (place + "/" + name) if place else name
        if path not in dirs:
            files.add(path)
    return sorted(files), sorted(dirs)


def gen_symlinks(rng, files, dirs):
    """name -> target (relative to the tree root).  Dangling links and links to regular
    files, placed in directories (never used as arguments themselves)."""
    links = {}
    places = [""] + sorted(dirs)
    for _ in range(rng.choice([0, 0, 0, 1, 2])):
        place = rng.choice(places)
        name = rng.choice(["dangling.md", "gone.md", ".#lock.md", "alias.md", "alias.txt"])
        path = (place + "/" + name) if place else name
        if path in files or path in dirs:
            continue
        if name.startswith("alias") and files:
            links[path] = rng.choice(files)
        else:
            links[path] = "no/such/target.md"
    return links


def gen_args(rng, files, dirs):
    args = []
    for _ in range(rng.choice([1, 1, 2, 2, 3])):
        roll = rng.random()
        if roll < 0.35 and files:
            path = rng.choice(files)
            spelling = rng.random()
            if spelling < 0.55:
                args.append(path)
            elif spelling < 0.70:
                args.append("./" + path)
            elif spelling < 0.80 and dirs:
                d = rng.choice(dirs)
                args.append(d + "/" + "/".join([".."] * (d.count("/") + 1)) + "/" + path)
            elif spelling < 0.90:
                args.append("<W>/" + path)
            else:
                args.append(path)
        elif roll < 0.60:
            choice = rng.choice((dirs or ["."]) + ["."])
            args.append(choice + rng.choice(["", "", "/", ""]) if choice != "." else rng.choice([".", "./"]))
        elif roll < 0.85:
            args.append(rng.choice(["*.md", "*", "docs/*", "d*/*.md", "?.md", "*.txt", "**", "./*.md", "docs/*/*", "*.m?", "[ab].*", "q?.md", "s*r.md", "*/", "x.md/*", "docs/sub/*.md", ".*", "**/*.md", "docs/**/*.md", "**/sub/*", "./**/*.md", "**/**"]))
        elif roll < 0.93:
            args.append(rng.choice(["nosuch.md", "nosuch", "docs/nosuch.md", "nosuch/"]))
        else:
            args.append(rng.choice(["notes.txt", "README", "x.markdown", "B.MD"]))
    return args


# ------------------------------------------------------------------ directory links
#
# A fixed tree with symbolic links to DIRECTORIES, and argument spellings that go through
# them (link/.., link/../a.md): here "which file does this spelling designate" is decided
# by the file system, not by the text of the path.  The expectation comes from a small
# physical resolver (below), independent of the textual model used for the other trees.

DL_FILES = ["a.md", "b.md", "notes.txt", "real/a.md", "real/b.md", "real/notes.txt", "real/deep/d.md", "real/deep/e.md", "other/a.md"]
DL_DIRS = ["real", "real/deep", "other"]
DL_LINKS = {"link": "real/deep", "other/up": "real"}
DL_ARGS = [
    "a.md", "./a.md", "link/../a.md", "real/a.md", "real/deep/../a.md", "other/up/a.md", "other/a.md", "other/up/deep/../b.md", "real/b.md", "b.md",
    "link/d.md", "real/deep/d.md", "other/up/deep/d.md", "link/../deep/e.md",
    "link/..", "link/../", "link", "link/", "real/deep", "real", "real/", "other/up", "other/up/", "other/up/deep/..", "other/up/deep", "other", ".",
]


def _dl_resolve(path):
    current = []
    for part in [p for p in path.split("/") if p not in ("", ".")]:
        if part == "..":
            if not current:
                return None
            current.pop()
            continue
        current.append(part)
        here = "/".join(current)
        if here in DL_LINKS:
            current = DL_LINKS[here].split("/")
    return "/".join(current)


def _dl_expected(args, recurse):
    spelled = {}

    def add(real, spelling):
        if real not in spelled or spelling < spelled[real]:
            spelled[real] = spelling

    for arg in args:
        real = _dl_resolve(arg)
        if real in DL_FILES:
            if real.endswith(".md"):
                add(real, arg)
            continue
        prefix = arg[:-1] if arg.endswith("/") and len(arg) > 1 else arg
        for name in DL_FILES:
            if not name.endswith(".md"):
                continue
            folder = name.rsplit("/", 1)[0] if "/" in name else ""
            inside = folder == real or (recurse and (real == "" or folder.startswith(real + "/")))
            if inside:
                add(name, prefix + "/" + (name[len(real) + 1 :] if real else name))
    return sorted(spelled.values())


def _generate_dirlink(rng):
    args = rng.sample(DL_ARGS, rng.choice([1, 2, 2, 3]))
    return {
        "dirlink": True,
        "cls": workload.draw_class(rng),
        "world": workload.draw_world(rng),
        "tree_files": list(DL_FILES),
        "tree_dirs": list(DL_DIRS),
        "symlinks": dict(DL_LINKS),
        "args": args,
        "recurse": rng.random() < 0.4,
        "alt": None,
        "command": "list",
        "scheme": "default",
        "perm_key": rng.randrange(1 << 20),
    }


def _evaluate_dirlink(sc):
    stats = collections.Counter({"directory_links": 1})
    out = []
    value = None
    args = list(sc["args"])
    orders = [args] + ([list(reversed(args))] if len(args) > 1 else [])
    want = _dl_expected(args, sc["recurse"])
    if any(".." in a for a in args):
        stats["directory_links_dotdot_argument"] += 1
    for order in orders:
        reply = run(_request(sc, order), sc["cls"])
        if value is None:
            value = event_digest(reply)
        if not done(reply):
            return {"violations": [], "evals": 1, "digests": [(value, False)], "stats": {"not_done": 1}, "faults": {}, "skipped": True}
        listed, exit_code, view = _observe(sc, reply)
        if view is not None and view.exc:
            out.append(violation("C19/traceback", "C19/traceback", {"args": order, "exc": view.exc}))
            break
        if listed != want:
            reals = [_dl_resolve(p) for p in listed]
            kind = "listed-twice" if len(set(reals)) != len(reals) else "missing" if set(want) - set(listed) else "extra-or-order"
            out.append(
                violation(
                    "C19/selection-differs",
                    "C19/selection-differs|directory-links|%s" % kind,
                    {"args": order, "recurse": sc["recurse"], "listed": listed, "expected": want, "links": DL_LINKS, "tree_files": DL_FILES, "exit": exit_code},
                )
            )
            break
    key = ("dirlink", tuple(args), sc["recurse"])
    return {"violations": out, "evals": len(orders), "digests": [(repr(key), True)], "stats": dict(stats), "faults": {}}


def generate(rng, tier, index):
    if index % 10 == 9:
        return _generate_dirlink(rng)
    files, dirs = gen_tree(rng)
    args = gen_args(rng, files, dirs)
    symlinks = gen_symlinks(rng, files, dirs)
    recurse = rng.random() < 0.4
    alt = rng.choice([None, None, None, ".txt", ".md,.txt", ".markdown", ".MD", ".bak"])
    command = rng.choice(["list", "list", "scan", "fix", "api-list"])
    scheme = rng.choice(["default", "default", "minimal"])
    return {
        "cls": workload.draw_class(rng),
        "world": workload.draw_world(rng),
        "tree_files": files,
        "tree_dirs": dirs,
        "symlinks": symlinks,
        "args": args,
        "recurse": recurse,
        "alt": alt,
        "command": command,
        "scheme": scheme,
        "perm_key": rng.randrange(1 << 20),
    }


# ------------------------------------------------------------------ model


class Model:
    def __init__(self, files, dirs, alt, symlinks=None):
        # a link to a regular file is a file under its own name; a dangling link is
        # listed by the directory walk but is not a file, so it is never eligible
        live = [name for name, target in (symlinks or {}).items() if target in set(files)]
        self.dangling = set(name for name in (symlinks or {}) if name not in live)
        files = list(files) + live
        self.files = set(files)
        self.dirs = set(dirs) | {""}
        self.exts = [e for e in (alt.lower() if alt else ".md").split(",")]

    @staticmethod
    def norm(path):
        if path.startswith("<W>/"):
            path = path[4:]
        elif path == "<W>":
            path = "."
        value = posixpath.normpath(path)
        return "" if value == "." else value

    def exists(self, path):
        # every intermediate component must exist for a spelling like d/../a.md
        return self._resolvable(path)

    def _resolvable(self, path):
        raw = path[4:] if path.startswith("<W>/") else path
        parts = [p for p in raw.split("/") if p not in ("", ".")]
        current = []
        for part in parts:
            if part == "..":
                if not current:
                    return False  # leaves the tree: not modelled, generator never does this
                current.pop()
                continue
            current.append(part)
            here = "/".join(current)
            if here not in self.dirs and here not in self.files:
                return False
            if here in self.files and part is not parts[-1]:
                return False
        final = "/".join(current)
        if raw.endswith("/") and final in self.files:
            return False
        return final in self.dirs or final in self.files

    def isdir(self, path):
        return self._resolvable(path) and self.norm(path) in self.dirs

    def isfile(self, path):
        return self._resolvable(path) and self.norm(path) in self.files

    def eligible(self, path):
        return self.isfile(path) and any(path.endswith(ext) for ext in self.exts)

    def children(self, directory):
        prefix = directory + "/" if directory else ""
        names_files, names_dirs = [], []
        for f in sorted(self.files | self.dangling):
            # (a dangling link is an entry of its directory: listings and globs see it)
            if f.startswith(prefix) and "/" not in f[len(prefix) :]:
                names_files.append(f[len(prefix) :])
        for d in self.dirs:
            if d and d.startswith(prefix) and "/" not in d[len(prefix) :] and d != directory:
                names_dirs.append(d[len(prefix) :])
        return names_files, names_dirs

    def walk_select(self, arg, recurse):
        """real files selected by a directory argument"""
        top = self.norm(arg)
        out = set()
        stack = [top]
        while stack:
            directory = stack.pop()
            names_files, names_dirs = self.children(directory)
            for name in names_files:
                real = (directory + "/" + name) if directory else name
                if real in self.dangling:
                    continue  # not a file
                if any(name.endswith(ext) for ext in self.exts):
                    out.add(real)
            if recurse:
                for name in names_dirs:
                    stack.append((directory + "/" + name) if directory else name)
        return out

    def glob(self, pattern):
        """non-recursive glob semantics on the model tree -> list of spellings"""
        absolute = pattern.startswith("<W>/")
        raw = pattern[4:] if absolute else pattern
        trailing = raw.endswith("/")
        segments = [s for s in raw.split("/")]
        if trailing:
            segments = segments[:-1]
        results = [("", "")]  # (spelling so far, real dir)
        for index, segment in enumerate(segments):
            last = index == len(segments) - 1
            new = []
            for spelled, real in results:
                if segment in (".", ""):
                    new.append((self._join(spelled, segment), real))
                    continue
                if segment == "..":
                    if real:
                        new.append((self._join(spelled, ".."), real.rsplit("/", 1)[0] if "/" in real else ""))
                    continue
                names_files, names_dirs = self.children(real)
                magic = any(c in segment for c in "*?[")
                candidates = names_dirs + (names_files if last and not trailing else [])
                for name in sorted(candidates):
                    if magic:
                        seg = "*" if segment == "**" else segment
                        if name.startswith(".") and not seg.startswith("."):
                            continue
                        if not fnmatch.fnmatchcase(name, seg):
                            continue
                    elif name != segment:
                        continue
                    new.append((self._join(spelled, name), (real + "/" + name) if real else name))
            results = new
        out = []
        for spelled, real in results:
            if real in self.dirs or real in self.files or real in self.dangling:
                out.append(("<W>/" if absolute else "") + spelled + ("/" if trailing else ""))
        return out

    @staticmethod
    def _join(spelled, name):
        if spelled == "":
            return name
        return spelled + "/" + name

    @staticmethod
    def sort_key(spelled):
        # the run root is an absolute path: it sorts like a name starting with "/"
        return spelled.replace("<W>", "/", 1) if spelled.startswith("<W>") else spelled

    def _spell_dir(self, arg, real):
        prefix = arg[:-1] if arg.endswith("/") and len(arg) > 1 else arg
        top = self.norm(arg)
        relative = real[len(top) + 1 :] if top else real
        return prefix + "/" + relative

    def order(self, args, recurse):
        """Expected processing order: real files, sorted by the spelling under which
        they were selected; a file reached through several spellings keeps the one
        that sorts first."""
        spelled = {}

        def add(real, spelling):
            if real not in spelled or self.sort_key(spelling) < self.sort_key(spelled[real]):
                spelled[real] = spelling

        for arg in args:
            candidates = self.glob(arg) if ("*" in arg or "?" in arg) else [arg]
            for candidate in candidates:
                if self.isdir(candidate):
                    for real in self.walk_select(candidate, recurse):
                        add(real, self._spell_dir(candidate, real))
                elif self.eligible(candidate):
                    add(self.norm(candidate), candidate)
        return [real for real, _ in sorted(spelled.items(), key=lambda item: self.sort_key(item[1]))]

    def select(self, args, recurse):
        """-> (set of real files, error kind or None)"""
        selected = set()
        for arg in args:
            if "*" in arg or "?" in arg:
                matches = self.glob(arg)
                if not matches:
                    return set(), "glob"
                for match in matches:
                    if self.isdir(match):
                        selected |= self.walk_select(match, recurse)
                    elif self.eligible(match):
                        selected.add(self.norm(match))
            else:
                if not self.exists(arg):
                    return set(), "missing"
                if self.isdir(arg):
                    selected |= self.walk_select(arg, recurse)
                elif self.eligible(arg):
                    selected.add(self.norm(arg))
                else:
                    return set(), "ineligible"
        return selected, None


# ------------------------------------------------------------------ execution


def _request(sc, args):
    files = {name: {"b64": b64(DOC)} for name in sc["tree_files"]}
    flags = []
    if sc["scheme"] != "default":
        flags += ["--return-code-scheme", sc["scheme"]]
    tail = []
    if sc["recurse"]:
        tail.append("-r")
    if sc["alt"]:
        tail += ["-ae", sc["alt"]]
    if sc["command"] == "list":
        op = {"kind": "cli", "argv": flags + ["scan", "--list-files"] + tail + args}
    elif sc["command"] in ("scan", "fix"):
        op = {"kind": "cli", "argv": flags + ["-d", "md041,md047", sc["command"]] + tail + args}
    else:
        kwargs = {}
        if sc["recurse"]:
            kwargs["recurse_if_directory"] = True
        if sc["alt"]:
            kwargs["alternate_extensions"] = sc["alt"]
        op = {"kind": "api", "new": True, "call": ["list_path", [args[0]], kwargs]}
    request = {"files": files, "dirs": sc["tree_dirs"], "world": sc["world"], "cpu": 30, "ops": [op]}
    if sc.get("symlinks"):
        request["symlinks"] = sc["symlinks"]
    return request


def _observe(sc, reply):
    """-> (list of spelled paths processed/listed in order, exit or api type)"""
    result = reply["result"]
    op = result["ops"][0]
    if sc["command"] == "list":
        view = OpView(op)
        return [line for line in view.stdout.split("\n") if line], view.exit, view
    if sc["command"] == "api-list":
        api = op.get("api") or {}
        if api.get("type") == "list":
            return list(api["matching_files"]), "list", None
        return [], api.get("class") or api.get("type"), None
    view = OpView(op)
    order = []
    for entry in result["log"]:
        if entry[0] == "fs" and entry[1] == "open-r" and entry[2] == "target":
            name = entry[3][4:]
            if name not in order:
                order.append(name)
    return order, view.exit, view


def evaluate(sc):
    import random

    if sc.get("dirlink"):
        return _evaluate_dirlink(sc)
    stats = collections.Counter()
    out = []
    model = Model(sc["tree_files"], sc["tree_dirs"], sc["alt"], sc.get("symlinks"))
    if sc.get("symlinks"):
        stats["trees_with_symlinks"] += 1
    args = list(sc["args"])
    if sc["command"] == "api-list":
        args = args[:1]
        stats["api_list_path"] += 1
    want, error = model.select(args, sc["recurse"])
    stats["cmd:" + ("list" if sc["command"] in ("list", "api-list") else sc["command"])] += 1
    if error:
        stats["model_error_" + error] += 1
    elif not want:
        stats["model_empty_selection"] += 1
    if sc["recurse"]:
        stats["recurse"] += 1
    if sc["alt"]:
        stats["alt_ext"] += 1
    if any("*" in a or "?" in a for a in args):
        stats["glob_arg"] += 1
    if "x.md" in sc["tree_dirs"]:
        stats["dir_named_like_file"] += 1
    orders = [args]
    if len(args) > 1:
        permuted = list(args)
        random.Random(sc["perm_key"]).shuffle(permuted)
        if permuted == args:
            permuted = list(reversed(args))
        orders.append(permuted)
    observed = []
    value = None
    for order in orders:
        reply = run(_request(sc, order), sc["cls"])
        if value is None:
            value = event_digest(reply)
        if not done(reply):
            return {"violations": [], "evals": 1, "digests": [(value, False)], "stats": {"not_done": 1}, "faults": {}, "skipped": True}
        listed, exit_code, view = _observe(sc, reply)
        observed.append((order, listed, exit_code))
        where = {"args": order, "recurse": sc["recurse"], "alt": sc["alt"], "command": sc["command"], "tree_files": sc["tree_files"], "tree_dirs": sc["tree_dirs"]}
        if view is not None and view.exc:
            out.append(violation("C19/traceback", "C19/traceback", dict(where, exc=view.exc)))
            break
        normalised = [Model.norm(p.replace("<R>/work", "<W>")) for p in listed]
        if sc["command"] in ("list", "api-list") and listed != sorted(listed):
            out.append(violation("C19/not-sorted", "C19/not-sorted|%s" % sc["command"], dict(where, listed=listed)))
            break
        if len(set(normalised)) != len(normalised):
            stats["dup_spellings"] += 1
            out.append(violation("C19/listed-twice", "C19/listed-twice|%s" % ("list" if sc["command"] in ("list", "api-list") else sc["command"]), dict(where, listed=listed)))
            break
        if set(normalised) != want:
            kind = "extra" if set(normalised) - want else "missing"
            if error:
                kind = "scanned-despite-error:" + error
            out.append(
                violation(
                    "C19/selection-differs",
                    "C19/selection-differs|%s|%s" % ("list" if sc["command"] in ("list", "api-list") else sc["command"], kind),
                    dict(where, listed=listed, model=sorted(want), model_error=error),
                )
            )
            break
        if not error and normalised != model.order(order, sc["recurse"]):
            out.append(
                violation(
                    "C19/not-sorted",
                    "C19/not-sorted|%s|order" % ("list" if sc["command"] in ("list", "api-list") else sc["command"]),
                    dict(where, observed=listed, model_order=model.order(order, sc["recurse"])),
                )
            )
            break
        # exit status of empty / erroneous selections
        if sc["command"] != "api-list":
            if error or not want:
                expected = EXIT_TABLE[sc["scheme"]]["no_files"]
                if exit_code != expected:
                    out.append(
                        violation(
                            "C19/no-files-result",
                            "C19/no-files-result|%s|%s|expected=%s|got=%s" % (sc["command"], error or "dir-or-glob-without-eligible-files", expected, exit_code),
                            dict(where, model_error=error, exit=exit_code, scheme=sc["scheme"]),
                        )
                    )
                    break
    if not out and len(observed) == 2:
        first = sorted(Model.norm(p.replace("<R>/work", "<W>")) for p in observed[0][1])
        second = sorted(Model.norm(p.replace("<R>/work", "<W>")) for p in observed[1][1])
        if first != second or observed[0][2] != observed[1][2]:
            out.append(
                violation(
                    "C19/argument-order-matters",
                    "C19/argument-order-matters|%s" % sc["command"],
                    {"first": observed[0], "second": observed[1], "tree_files": sc["tree_files"], "tree_dirs": sc["tree_dirs"]},
                )
            )
    key = (tuple(sc["tree_files"]), tuple(sc["tree_dirs"]), tuple(args), sc["recurse"], sc["alt"], sc["command"])
    return {"violations": out, "evals": len(orders), "digests": [(repr(key), bool(want) or bool(error))], "stats": dict(stats), "faults": {}}


def reductions(sc):
    if sc.get("dirlink"):
        # the tree is fixed; only the argument list, the flag and the world shrink
        if len(sc["args"]) > 1:
            for index in range(len(sc["args"])):
                candidate = copy.deepcopy(sc)
                candidate["args"].pop(index)
                yield candidate
        if sc["recurse"]:
            candidate = copy.deepcopy(sc)
            candidate["recurse"] = False
            yield candidate
        if sc["world"] != NEUTRAL_WORLD:
            candidate = copy.deepcopy(sc)
            candidate["world"] = dict(NEUTRAL_WORLD)
            yield candidate
        return
    if len(sc["args"]) > 1:
        for index in range(len(sc["args"])):
            candidate = copy.deepcopy(sc)
            candidate["args"].pop(index)
            yield candidate
    for name in sc["tree_files"]:
        candidate = copy.deepcopy(sc)
        candidate["tree_files"].remove(name)
        yield candidate
    for name in sorted(sc["tree_dirs"], key=lambda d: -d.count("/")):
        if any(f.startswith(name + "/") for f in sc["tree_files"]) or any(d.startswith(name + "/") for d in sc["tree_dirs"]):
            continue
        candidate = copy.deepcopy(sc)
        candidate["tree_dirs"].remove(name)
        yield candidate
    for name in sorted(sc.get("symlinks") or {}):
        candidate = copy.deepcopy(sc)
        del candidate["symlinks"][name]
        yield candidate
    for field, neutral in (("recurse", False), ("alt", None), ("scheme", "default")):
        if sc[field] != neutral:
            candidate = copy.deepcopy(sc)
            candidate[field] = neutral
            yield candidate
    if sc["world"] != NEUTRAL_WORLD:
        candidate = copy.deepcopy(sc)
        candidate["world"] = dict(NEUTRAL_WORLD)
        yield candidate
    if sc["cls"] != [0, "utf8"]:
        candidate = copy.deepcopy(sc)
        candidate["cls"] = [0, "utf8"]
        yield candidate
    if sc["command"] != "list":
        candidate = copy.deepcopy(sc)
        candidate["command"] = "list"
        yield candidate
