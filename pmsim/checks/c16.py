"""C16 - all entry points agree: file scan, stdin scan and the Python API.

One document is pushed through every entry point, each in its own pristine
execution: `scan <file>`, `scan-stdin` (stdin is a simulated stream with seeded
short reads), PyMarkdownApi.scan_string / scan_path, `fix <file>` vs
PyMarkdownApi.fix_string; then again with diagnostics options.  The template's
locale class (UTF-8 or legacy C) is part of the world.
"""

import collections
import copy

from .. import workload
from ..common import NEUTRAL_WORLD, OpView, cached_run, done, event_digest, run, tree_bytes, violation
from ..corpus import b64, unb64

PROP = "C16"
LEVEL = "exploration"
COUNTS = {"quick": 600, "thorough": 12000}
WALL = {"quick": 900, "thorough": 6000}
RULE = (
    "scenario = one pool document (edge documents first: CRLF, lone CR, no final newline, BOM, 2/3/4-byte UTF-8, long lines) x a rule "
    "selection expressible both on the command line and through the API x diagnostics options x locale class x stdin chunking; "
    "6-9 executions per scenario (one per entry point, each in a pristine process).  Non-trivial = the file-scan reference completed "
    "and at least two other entry points were compared; distinct = distinct (document digest, selection, locale, chunking) digest."
)
ASSUMPTIONS = [
    "failure tuples are compared as (line, column, rule id, message incl. rule names); only the reported file name may differ",
    "fixed text is compared after universal-newline normalisation (in-place fix of an unchanged CRLF file keeps CRLF, a str has no such notion); was_fixed <=> text differs is judged for CR-free documents only",
    "under the legacy C locale the stdin path is compared only for ASCII documents; the API string paths are compared for all documents",
    "with diagnostics options, log lines on stdout/stderr are ignored; failure lines, exit status and fixed bytes must be identical",
]
PROBES = ["cmp:file-vs-stdin-under-fault", "cmp:blank-via-api", "cmp:diagnostics-under-fault", "cmp:file-vs-stdin", "cmp:file-vs-scan_string", "cmp:file-vs-scan_path", "cmp:inplace-vs-fix_string", "cmp:diagnostics", "locale_C", "non_ascii_doc", "crlf_doc", "stdin_split_multibyte", "stdin_chunk_1"]

EDGE = ["edge_crlf", "edge_crlf_noeol", "edge_lone_cr", "edge_mixed_eol", "edge_bom", "edge_utf8_2", "edge_utf8_3", "edge_utf8_4", "edge_utf8_noeol", "edge_nbsp", "edge_formfeed", "edge_seps_tail", "edge_u2028", "edge_fs_gs_rs", "edge_one_line", "edge_one_line_noeol", "ws_no_eol", "ws_trailing_eof", "ws_only_newlines", "ws_tabs", "ws_blank_end", "code_dollar", "code_dollar", "in_bare_url", "lrd_quote_unfinished", "lrd_list_unfinished", "lrd_quote_nested", "lrd_partial_eof", "lrd_partial_eof2", "bq_list", "edge_long_line", "edge_big_utf8_3", "edge_big_utf8_2", "edge_big_utf8_4", "ul_mixed", "ws_long", "vp_and_builtin", "pr_good", "pr_bad", "fm_valid"]

SELECTIONS = [
    ([], []),
    (["-d", "md013"], [["disable_rule_by_identifier", "md013"]]),
    (["-d", "md009,md010"], [["disable_rule_by_identifier", "md009"], ["disable_rule_by_identifier", "md010"]]),
    (["-d", "md047,md041,md022"], [["disable_rule_by_identifier", "md047"], ["disable_rule_by_identifier", "md041"], ["disable_rule_by_identifier", "md022"]]),
    (["-e", "md002"], [["enable_rule_by_identifier", "md002"]]),
    (["-e", "pml101,md006"], [["enable_rule_by_identifier", "pml101"], ["enable_rule_by_identifier", "md006"]]),
    (["--set", "plugins.md013.line_length=$#40"], [["set_integer_property", "plugins.md013.line_length", 40]]),
    (["--set", "plugins.md009.strict=$!True"], [["set_boolean_property", "plugins.md009.strict", True]]),
    (["--set", "plugins.md003.style=setext"], [["set_string_property", "plugins.md003.style", "setext"]]),
    (["--set", "extensions.front-matter.enabled=$!True"], [["set_boolean_property", "extensions.front-matter.enabled", True]]),
    (["--strict-config", "--set", "plugins.md007.indent=$#4"], [["enable_strict_configuration"], ["set_integer_property", "plugins.md007.indent", 4]]),
    (["-d", "md012", "--set", "plugins.md010.code_blocks=$!False"], [["disable_rule_by_identifier", "md012"], ["set_boolean_property", "plugins.md010.code_blocks", False]]),
    # the same property set several times: the last one decides
    (
        ["--set", "plugins.md013.line_length=$#100", "--set", "plugins.md013.line_length=$#40", "--set", "plugins.md013.line_length=$#100"],
        [["set_integer_property", "plugins.md013.line_length", 100], ["set_integer_property", "plugins.md013.line_length", 40], ["set_integer_property", "plugins.md013.line_length", 100]],
    ),
    (
        ["--set", "plugins.md004.style=dash", "--set", "plugins.md004.style=asterisk", "--set", "plugins.md004.style=dash", "--set", "plugins.md009.strict=$!True"],
        [["set_string_property", "plugins.md004.style", "dash"], ["set_string_property", "plugins.md004.style", "asterisk"], ["set_string_property", "plugins.md004.style", "dash"], ["set_boolean_property", "plugins.md009.strict", True]],
    ),
    (["-d", "md013,md009", "-e", "md002,md006"], [["disable_rule_by_identifier", "md013"], ["enable_rule_by_identifier", "md002"], ["disable_rule_by_identifier", "md009"], ["enable_rule_by_identifier", "md006"]]),
    (["-e", "md013", "-d", "md013"], [["enable_rule_by_identifier", "md013"], ["disable_rule_by_identifier", "md013"]]),
]

DIAG = [
    (["--log-level", "DEBUG"], [["log_debug_and_above"]]),
    (["--log-level", "INFO"], [["log_info_and_above"]]),
    (["--log-level", "WARNING"], [["log_warning_and_above"]]),
    (["--log-level", "ERROR"], [["log_error_and_above"]]),
    (["--log-level", "CRITICAL"], [["log_critical_and_above"]]),
    (["--log-level", "INFO", "--log-file", "diag.log"], [["log", "INFO"], ["log_to_file", "diag.log"]]),
    (["--stack-trace"], [["enable_stack_trace"]]),
    (["--stack-trace", "--log-level", "DEBUG", "--log-file", "diag.log"], [["enable_stack_trace"], ["log_debug_and_above"], ["log_to_file", "diag.log"]]),
    (["--stack-trace", "--log-level", "CRITICAL"], [["enable_stack_trace"], ["log_critical_and_above"]]),
]


def _generate_multi(rng):
    """Diagnostics options under a contained per-file error in a multi-file run."""
    from .. import carriers

    docs = workload.draw_docs(rng, rng.choice([2, 3, 3]), allow_concat=False)
    docs = [(label, data[:3000]) for label, data in docs]
    files, labels = workload.assign_names(rng, docs)
    names = sorted(files)
    victim = rng.choice(names[:-1])
    fault_kind = rng.choice(["parse", "cb", "undecodable"])
    plan, poison = [], None
    if fault_kind == "parse":
        plan = [{"site": "parse", "file": victim, "ord": 1, "act": "badtok"}]
    elif fault_kind == "cb":
        plan = [{"site": "cb/md047/next_line", "file": victim, "ord": 1, "act": "raise", "exc": "RuntimeError"}]
    else:
        poison = rng.choice(sorted(carriers.POISON))
        files[victim] = carriers.POISON[poison]
    return {
        "kind": "multi",
        "cls": [rng.choice([0, 1, 2, 3, 101]), "utf8"],
        "world": dict(workload.draw_world(rng, copy_emulation=False)),
        "files": workload.files_to_spec(files),
        "labels": labels,
        "victim": victim,
        "plan": plan,
        "mode": rng.choice(["scan", "fix"]),
        "coe": rng.random() < 0.8,
        "diag": rng.randrange(len(DIAG)),
        "selection": rng.randrange(len(SELECTIONS)),
    }


def _evaluate_multi(sc):
    stats = collections.Counter()
    out = []
    cli_flags, _ = SELECTIONS[sc["selection"]]
    diag_flags, _ = DIAG[sc["diag"]]
    base = (["--continue-on-error"] if sc["coe"] else []) + list(cli_flags)
    names = sorted(sc["files"])

    def execute(flags):
        request = {"files": sc["files"], "world": sc["world"], "cpu": 90, "ops": [{"kind": "cli", "argv": flags + [sc["mode"]] + names}]}
        if sc["plan"]:
            request["plan"] = sc["plan"]
        return run(request, sc["cls"])

    ref = execute(base)
    value = event_digest(ref)
    if not done(ref):
        return {"violations": [], "evals": 1, "digests": [(value, False)], "stats": {"ref_not_done": 1}, "faults": {}, "skipped": True}
    ref_view = OpView(ref["result"]["ops"][0])
    ref_tree = tree_bytes(ref)
    fired = bool(ref["result"].get("fired")) or not sc["plan"]
    other = execute(diag_flags + base)
    stats["cmp:diagnostics-under-fault"] += 1
    if done(other):
        view = OpView(other["result"]["ops"][0])
        tree = tree_bytes(other)
        problems = []
        if view.exit != ref_view.exit:
            problems.append(["exit", view.exit, ref_view.exit])
        for name in names:
            if sorted(view.fail_tuples(name)) != sorted(ref_view.fail_tuples(name)):
                problems.append(["failures of " + name, len(view.fail_tuples(name)), len(ref_view.fail_tuples(name))])
            if (name in view.fixed) != (name in ref_view.fixed):
                problems.append(["Fixed: " + name, name in view.fixed, name in ref_view.fixed])
            if tree.get(name) != ref_tree.get(name):
                problems.append(["bytes of " + name, repr(tree.get(name))[:80], repr(ref_tree.get(name))[:80]])
        if view.exc:
            problems.append(["traceback", view.exc, None])
        if problems:
            out.append(
                violation(
                    "C16/diagnostics-change-result",
                    "C16/diagnostics-change-result|%s-under-fault|%s" % (sc["mode"], "+".join(f for f in diag_flags if f.startswith("--"))),
                    {"diag": diag_flags, "flags": base, "victim": sc["victim"], "plan": sc["plan"], "problems": problems[:6], "labels": sc["labels"]},
                )
            )
    faults = {"contained-fault": [1, 1 if fired else 0]}
    return {"violations": out, "evals": 2, "digests": [(value, fired)], "stats": dict(stats), "faults": faults}


def generate(rng, tier, index):
    from .. import corpus

    if rng.random() < 0.3:
        return _generate_multi(rng)

    docs = corpus.load()
    if rng.random() < 0.55:
        name = rng.choice(EDGE)
        label, data = name, docs[name].data
    else:
        label, data = workload.draw_docs(rng, 1, allow_concat=False)[0]
    if len(data) > 60000:
        data = data[:60000]
    ascii_only = all(b < 128 for b in data)
    locale = "C" if rng.random() < 0.3 else "utf8"
    selection = rng.randrange(len(SELECTIONS))
    diag = rng.randrange(len(DIAG))
    chunk = rng.choice([1, 1, 2, 3, 5, 16, 64, 4096, 8192, 65536])
    scenario = {
        "cls": [rng.choice([0, 1, 2, 3, 101]), locale],
        "world": dict(workload.draw_world(rng, copy_emulation=False)),
        "label": label,
        "doc": b64(data),
        "ascii": ascii_only,
        "selection": selection,
        "diag": diag,
        "stdin_chunks": [chunk] if rng.random() < 0.7 else [rng.choice([1, 2, 3]), rng.choice([1, 5, 9])],
        "stdin_buf": rng.choice([1, 2, 8192]),
        "raw_newlines": rng.random() < 0.5,
        "name": rng.choice(["doc.md", "sub/doc.md", "a b.md"]),
    }
    # a quarter of the scenarios: the same contained application error (rule callback or
    # parser) met through the file and through the standard-input entry point
    if rng.random() < 0.25:
        entry = rng.choice(
            [
                {"site": "parse", "ord": 1, "act": "badtok"},
                {"site": "cb/md047/next_line", "ord": 1, "act": "raise", "exc": "RuntimeError"},
                {"site": "cb/md018/next_token", "ord": 1, "act": "raise_after", "exc": "IndexError"},
                {"site": "cb/md041/starting_new_file", "ord": 1, "act": "raise", "exc": "RuntimeError"},
            ]
        )
        scenario["entry_fault"] = {"entry": entry, "coe": rng.random() < 0.7}
    return scenario


def _text(sc):
    data = unb64(sc["doc"])
    try:
        text = data.decode("utf-8")
    except UnicodeDecodeError:
        return None
    if not sc["raw_newlines"]:
        text = text.replace("\r\n", "\n").replace("\r", "\n")
    return text


def _req(sc, op, with_file=True):
    files = {sc["name"]: {"b64": sc["doc"]}} if with_file else {}
    return {"files": files, "world": sc["world"], "cpu": 60, "ops": [op]}


def _tuples_from_api(api):
    return sorted((f[1], f[2], f[3], "%s%s (%s)" % (f[5], f[6], f[4])) for f in api.get("scan_failures", []))


def _norm_newlines(text):
    return text.replace("\r\n", "\n").replace("\r", "\n")


def evaluate(sc):
    if sc.get("kind") == "multi":
        return _evaluate_multi(sc)
    stats = collections.Counter()
    out = []
    data = unb64(sc["doc"])
    cli_flags, api_build = SELECTIONS[sc["selection"]]
    diag_flags, diag_build = DIAG[sc["diag"]]
    name = sc["name"]
    cls = sc["cls"]
    locale_c = cls[1] == "C"
    if locale_c:
        stats["locale_C"] += 1
    if not sc["ascii"]:
        stats["non_ascii_doc"] += 1
    if b"\r" in data:
        stats["crlf_doc"] += 1
    compared = 0

    ref = run(_req(sc, {"kind": "cli", "argv": cli_flags + ["scan", name]}), cls)
    value = event_digest(ref)
    if not done(ref):
        return {"violations": [], "evals": 1, "digests": [(value, False)], "stats": {"ref_not_done": 1}, "faults": {}, "skipped": True}
    ref_view = OpView(ref["result"]["ops"][0])
    if ref_view.exc or ref_view.err_other or ref_view.err0:
        stats["ref_errors"] += 1
        return {"violations": [], "evals": 1, "digests": [(value, False)], "stats": dict(stats), "faults": {}}
    ref_tuples = sorted(ref_view.fail_tuples())
    ref_pragmas = sorted(line.split(":", 1)[1] for line in ref_view.pragma.get(name, []))

    def differ(kind, got, want, extra=None):
        detail = {"entry": kind, "got": got[:12] if isinstance(got, list) else got, "want": want[:12] if isinstance(want, list) else want, "document": sc["label"], "selection": cli_flags, "locale": cls[1]}
        if extra:
            detail.update(extra)
        out.append(violation("C16/entry-points-differ", "C16/entry-points-differ|%s%s" % (kind, "|locale=C" if locale_c else ""), detail))

    # --- stdin -------------------------------------------------------------
    if not locale_c or sc["ascii"]:
        op = {"kind": "cli", "argv": cli_flags + ["scan-stdin"], "stdin_b64": sc["doc"], "stdin_chunks": sc["stdin_chunks"], "stdin_buf": sc["stdin_buf"]}
        reply = run(_req(sc, op, with_file=False), cls)
        if done(reply):
            view = OpView(reply["result"]["ops"][0])
            compared += 1
            stats["cmp:file-vs-stdin"] += 1
            if 1 in sc["stdin_chunks"]:
                stats["stdin_chunk_1"] += 1
                if not sc["ascii"]:
                    stats["stdin_split_multibyte"] += 1
            got = sorted(view.fail_tuples())
            if view.exc or got != ref_tuples or view.exit != ref_view.exit:
                differ("file-vs-stdin", got, ref_tuples, {"exit": [view.exit, ref_view.exit], "stderr": view.stderr[-300:], "exc": view.exc, "chunks": sc["stdin_chunks"]})
            if reply.get("tmp"):
                out.append(violation("C16/spool-left", "C16/spool-left|stdin", {"tmp": sorted(reply["tmp"])}))
    # --- the same contained application error through file and stdin ------------
    if sc.get("entry_fault") and (not locale_c or sc["ascii"]):
        fault = sc["entry_fault"]
        flags = (["--continue-on-error"] if fault["coe"] else []) + list(cli_flags)
        by_file = _req(sc, {"kind": "cli", "argv": flags + ["scan", name]})
        by_file["plan"] = [dict(fault["entry"], file=name, op=0)]
        by_stdin = _req(sc, {"kind": "cli", "argv": flags + ["scan-stdin"], "stdin_b64": sc["doc"], "stdin_chunks": sc["stdin_chunks"], "stdin_buf": sc["stdin_buf"]}, with_file=False)
        by_stdin["plan"] = [dict(fault["entry"], file="<stdin>", op=0)]
        file_reply, stdin_reply = run(by_file, cls), run(by_stdin, cls)
        if done(file_reply) and done(stdin_reply):
            if file_reply["result"].get("fired") and stdin_reply["result"].get("fired"):
                stats["cmp:file-vs-stdin-under-fault"] += 1
                file_view, stdin_view = OpView(file_reply["result"]["ops"][0]), OpView(stdin_reply["result"]["ops"][0])
                got, want = sorted(stdin_view.fail_tuples()), sorted(file_view.fail_tuples())
                if stdin_view.exit != file_view.exit or got != want or bool(stdin_view.exc) != bool(file_view.exc):
                    differ(
                        "file-vs-stdin-under-fault",
                        got,
                        want,
                        {"exit": [stdin_view.exit, file_view.exit], "fault": fault, "stderr_stdin": stdin_view.stderr[-300:], "stderr_file": file_view.stderr[-300:], "exc": [stdin_view.exc, file_view.exc]},
                    )
            else:
                stats["entry_fault_not_fired"] += 1
    # --- API scan_string ---------------------------------------------------------
    text = _text(sc)
    if text is not None and text.strip():
        op = {"kind": "api", "new": True, "build": api_build, "call": ["scan_string", [text], {}]}
        reply = run(_req(sc, op, with_file=False), cls)
        if done(reply):
            api = reply["result"]["ops"][0].get("api") or {}
            compared += 1
            stats["cmp:file-vs-scan_string"] += 1
            if api.get("type") == "scan":
                got = _tuples_from_api(api)
                if got != ref_tuples:
                    differ("file-vs-scan_string", got, ref_tuples)
            else:
                differ("file-vs-scan_string", [api.get("type"), api.get("reason", reply["result"]["ops"][0].get("exc"))], ["scan result"], {"text_head": text[:80]})
            if reply.get("tmp"):
                out.append(violation("C16/spool-left", "C16/spool-left|scan_string", {"tmp": sorted(reply["tmp"])}))
    if text is not None and not text.strip():
        # a blank document: the API documents that it refuses it; whatever it does, it must
        # not answer with somebody else's text (the host's standard input is not empty here)
        op = {"kind": "api", "new": True, "build": api_build, "call": ["scan_string", [text], {}], "stdin_b64": b64(b"#  Not the document\n\n\n\ntrailing   \n")}
        reply = run(_req(sc, op, with_file=False), cls)
        if done(reply):
            api = reply["result"]["ops"][0].get("api") or {}
            stats["cmp:blank-via-api"] += 1
            refused = api.get("type") == "exception" and api.get("class") == "PyMarkdownApiArgumentException"
            if not refused and (api.get("type") != "scan" or _tuples_from_api(api) != ref_tuples):
                differ("file-vs-scan_string:blank", [api.get("type"), str(api)[:200]], ref_tuples)
    # --- API scan_path -----------------------------------------------------------
    op = {"kind": "api", "new": True, "build": api_build, "call": ["scan_path", [name], {}]}
    reply = run(_req(sc, op), cls)
    if done(reply):
        api = reply["result"]["ops"][0].get("api") or {}
        compared += 1
        stats["cmp:file-vs-scan_path"] += 1
        if api.get("type") == "scan":
            got = _tuples_from_api(api)
            if got != ref_tuples:
                differ("file-vs-scan_path", got, ref_tuples)
            got_pragmas = sorted("%s:1: INLINE: %s" % (p[1], p[2]) for p in api.get("pragma_errors", []))
            if got_pragmas != ref_pragmas:
                differ("file-vs-scan_path:pragmas", got_pragmas, ref_pragmas)
        else:
            differ("file-vs-scan_path", [api.get("type"), api.get("reason")], ["scan result"])
    # --- fix in place vs fix_string ------------------------------------------------
    fix_ref = run(_req(sc, {"kind": "cli", "argv": cli_flags + ["fix", name]}), cls)
    fixed_bytes = None
    if done(fix_ref):
        fix_view = OpView(fix_ref["result"]["ops"][0])
        if not fix_view.exc and not fix_view.err_other and not fix_view.err0 and fix_view.exit in (0, 3):
            fixed_bytes = tree_bytes(fix_ref).get(name)
    if fixed_bytes is not None and text is not None and text.strip():
        op = {"kind": "api", "new": True, "build": api_build, "call": ["fix_string", [text], {}]}
        reply = run(_req(sc, op, with_file=False), cls)
        if done(reply):
            api = reply["result"]["ops"][0].get("api") or {}
            compared += 1
            stats["cmp:inplace-vs-fix_string"] += 1
            if api.get("type") == "fix_string":
                want = _norm_newlines(fixed_bytes.decode("utf-8"))
                got = _norm_newlines(api["fixed_file"])
                if got != want:
                    out.append(
                        violation(
                            "C16/fix-differs",
                            "C16/fix-differs|inplace-vs-fix_string%s" % ("|locale=C" if locale_c else ""),
                            {"document": sc["label"], "selection": cli_flags, "got": got[:300], "want": want[:300]},
                        )
                    )
                if b"\r" not in data and api["was_fixed"] != (api["fixed_file"] != text):
                    out.append(violation("C16/was_fixed", "C16/was_fixed", {"document": sc["label"], "was_fixed": api["was_fixed"], "input": text[:200], "output": api["fixed_file"][:200]}))
            else:
                out.append(
                    violation(
                        "C16/fix-differs",
                        "C16/fix-differs|fix_string-fails%s" % ("|locale=C" if locale_c else ""),
                        {"document": sc["label"], "api": api, "exc": reply["result"]["ops"][0].get("exc")},
                    )
                )
            if reply.get("tmp"):
                out.append(violation("C16/spool-left", "C16/spool-left|fix_string", {"tmp": sorted(reply["tmp"])}))
    # --- diagnostics change diagnostics only ---------------------------------------
    small = data.count(b"\n") <= 40
    if small or "DEBUG" not in diag_flags and "--stack-trace" not in diag_flags:
        reply = run(_req(sc, {"kind": "cli", "argv": diag_flags + cli_flags + ["scan", name]}), cls)
        if done(reply):
            view = OpView(reply["result"]["ops"][0])
            compared += 1
            stats["cmp:diagnostics"] += 1
            got = sorted(view.fail_tuples(name))
            if view.exc or got != ref_tuples or view.exit != ref_view.exit:
                out.append(
                    violation(
                        "C16/diagnostics-change-result",
                        "C16/diagnostics-change-result|scan|%s" % "+".join(f for f in diag_flags if f.startswith("--")),
                        {"document": sc["label"], "diag": diag_flags, "got": got[:10], "want": ref_tuples[:10], "exit": [view.exit, ref_view.exit], "exc": view.exc},
                    )
                )
        if fixed_bytes is not None:
            reply = run(_req(sc, {"kind": "cli", "argv": diag_flags + cli_flags + ["fix", name]}), cls)
            if done(reply):
                view = OpView(reply["result"]["ops"][0])
                got_bytes = tree_bytes(reply).get(name)
                if view.exc or got_bytes != fixed_bytes or view.exit != OpView(fix_ref["result"]["ops"][0]).exit:
                    out.append(
                        violation(
                            "C16/diagnostics-change-result",
                            "C16/diagnostics-change-result|fix|%s" % "+".join(f for f in diag_flags if f.startswith("--")),
                            {"document": sc["label"], "diag": diag_flags, "got": repr(got_bytes)[:200], "want": repr(fixed_bytes)[:200], "exit": view.exit, "exc": view.exc},
                        )
                    )
        op = {"kind": "api", "new": True, "build": diag_build + api_build, "call": ["scan_path", [name], {}]}
        reply = run(_req(sc, op), cls)
        if done(reply):
            api = reply["result"]["ops"][0].get("api") or {}
            if api.get("type") != "scan" or _tuples_from_api(api) != ref_tuples:
                out.append(
                    violation(
                        "C16/diagnostics-change-result",
                        "C16/diagnostics-change-result|api|%s" % "+".join(step[0] for step in diag_build),
                        {"document": sc["label"], "diag": diag_build, "api": str(api)[:300], "want": ref_tuples[:10]},
                    )
                )
    key = (sc["doc"][:40], sc["selection"], cls[1], tuple(sc["stdin_chunks"]), sc["diag"], value)
    return {"violations": out, "evals": 0, "digests": [(repr(key), compared >= 2)], "stats": dict(stats), "faults": {}}


def reductions(sc):
    if sc.get("kind") == "multi":
        for field, neutral in (("selection", 0), ("coe", False)):
            if sc[field] != neutral:
                candidate = copy.deepcopy(sc)
                candidate[field] = neutral
                yield candidate
        if sc["world"] != NEUTRAL_WORLD:
            candidate = copy.deepcopy(sc)
            candidate["world"] = dict(NEUTRAL_WORLD)
            yield candidate
        if sc["cls"] != [0, "utf8"]:
            candidate = copy.deepcopy(sc)
            candidate["cls"] = [0, "utf8"]
            yield candidate
        for name in sorted(sc["files"]):
            if name != sc["victim"] and len(sc["files"]) > 2:
                candidate = copy.deepcopy(sc)
                del candidate["files"][name]
                yield candidate
        for name in sorted(sc["files"]):
            data = unb64(sc["files"][name]["b64"])
            for smaller in workload.shrink_bytes_candidates(data, limit=6):
                candidate = copy.deepcopy(sc)
                candidate["files"][name] = {"b64": b64(smaller)}
                yield candidate
        return
    if sc["selection"] != 0:
        candidate = copy.deepcopy(sc)
        candidate["selection"] = 0
        yield candidate
    if sc["diag"] != 4:
        candidate = copy.deepcopy(sc)
        candidate["diag"] = 4
        yield candidate
    if sc["cls"] != [0, "utf8"]:
        candidate = copy.deepcopy(sc)
        candidate["cls"] = [0, sc["cls"][1]]
        if candidate["cls"] != sc["cls"]:
            yield candidate
        candidate = copy.deepcopy(sc)
        candidate["cls"] = [0, "utf8"]
        yield candidate
    if sc["stdin_chunks"] != [4096]:
        candidate = copy.deepcopy(sc)
        candidate["stdin_chunks"] = [4096]
        yield candidate
    if sc.get("entry_fault"):
        candidate = copy.deepcopy(sc)
        del candidate["entry_fault"]
        yield candidate
    if sc["name"] != "doc.md":
        candidate = copy.deepcopy(sc)
        candidate["name"] = "doc.md"
        yield candidate
    data = unb64(sc["doc"])
    for smaller in workload.shrink_bytes_candidates(data, limit=16):
        candidate = copy.deepcopy(sc)
        candidate["doc"] = b64(smaller)
        candidate["ascii"] = all(b < 128 for b in smaller)
        yield candidate
