"""C10 - fix reporting is truthful and scan is read-only.

Every file-system effect of a run is observed at the audit-event seam and by
before/after snapshots of the run root.  Fault-free worlds only (C15 covers the
faulted ones); directory order, temp names, hash seed, copy implementation vary.
"""

import collections
import copy
import zlib
import re

from .. import workload
from ..common import EXIT_TABLE, NEUTRAL_WORLD, OpView, builtin_rule_ids, cached_run, done, event_digest, run, solo, tree_bytes, violation
from ..corpus import b64, unb64

PROP = "C10"
LEVEL = "exploration"
COUNTS = {"quick": 1500, "thorough": 30000}
WALL = {"quick": 900, "thorough": 6000}
RULE = (
    "scenario = 1-3 operations in one process over 1-5 pool documents: scan / scan-stdin / --list-files / fix / the API "
    "equivalents / plugins, extensions, version sub-commands, both return-code schemes, default rules or probe-only rules, "
    "optionally after an invocation that used --log-file.  Non-trivial = a fix operation that changed >= 1 file or a read-only "
    "operation over >= 1 document; distinct = distinct digest of the execution (outputs, event log, final tree)."
)
ASSUMPTIONS = [
    "read-only operations: transient files inside the private temp directory are allowed (scan-stdin spools by design); any mutating event elsewhere, any difference in the tree snapshot and any file left in the temp directory is judged",
    "fix: an untouched file is judged on its bytes only; a rewrite with identical bytes is recorded, not reported",
    "'no failure from a fix-capable rule' is taken from a solo reference scan of the same document with the same configuration; the set of fix-capable rules is read from `plugins list --all`",
    "probe-only fix runs are checked against a hand-verifiable model of the probe's two fixes",
]
PROBES = ["fix_op_with_fault", "readonly_op_with_fault", "fix_changed_some", "fix_changed_none", "fix_token_fix_probe", "fix_line_fix_probe", "readonly_after_logfile", "stdin_scan", "api_fix_string", "list_files", "fix_multi_level"]

READONLY_KINDS = ["scan", "scan", "scan-stdin", "list", "api-scan_path", "api-scan_string", "api-list_path", "sub-plugins", "sub-extensions", "sub-version"]
FIX_KINDS = ["fix", "fix", "fix", "api-fix_path", "api-fix_string"]

_FIX_RULES = {}


def fix_capable_rules():
    if "ids" not in _FIX_RULES:
        reply = cached_run({"files": {}, "world": dict(NEUTRAL_WORLD), "ops": [{"kind": "cli", "argv": ["plugins", "list", "--all"]}]})
        ids = set()
        for line in reply["result"]["ops"][0]["stdout"].splitlines():
            match = re.match(r"^\s*([a-z]{2,3}\d{3})\s.*\s(Yes|No)\s*$", line)
            if match and match.group(2) == "Yes":
                ids.add(match.group(1).upper())
        _FIX_RULES["ids"] = ids
    return _FIX_RULES["ids"]


def _gen_op(rng, k, kind, probe_only):
    prefix = "o%d/" % k
    count = rng.choice([1, 2, 2, 3, 4, 5])
    if probe_only:
        from .. import corpus

        docs_all = corpus.load()
        names = [n for n in docs_all if docs_all[n].group == "probe"] + ["h_atx", "ws_trailing"]
        docs = [(n, docs_all[n].data) for n in (rng.choice(names) for _ in range(count))]
    else:
        docs = workload.draw_docs(rng, count, need=["fixable"] if kind in FIX_KINDS and rng.random() < 0.6 else None)
    files, labels = workload.assign_names(rng, docs)
    files = {prefix + n: d for n, d in files.items()}
    labels = {prefix + n: lab for n, lab in labels.items()}
    flags, scheme = workload.draw_config_flags(rng, max_settings=1)
    probes = None
    if probe_only:
        flags = [f for f in flags]
        # drop any -d/-e of the config generator, disable every built-in rule
        cleaned = []
        skip = 0
        for f in flags:
            if skip:
                skip -= 1
                continue
            if f in ("-d", "-e"):
                skip = 1
                continue
            cleaned.append(f)
        pid = rng.choice(["aaa000", "md016", "zzz999"])
        flags = cleaned + workload.probe_flags([pid]) + ["-d", "<BUILTINS>"]
        probes = {pid: {"fix": True, "level": rng.choice([0, 1, 3])}}
    if rng.random() < 0.3:
        flags = ["--continue-on-error"] + flags
    op = {"kind": kind, "flags": flags, "scheme": scheme, "files": workload.files_to_spec(files), "docs": sorted(files), "labels": labels, "probes": probes, "probe_only": probe_only}
    paths = sorted(files)
    rng.shuffle(paths)
    use_dir = rng.random() < 0.25 and all("/" not in p[len(prefix) :] for p in paths)
    target_paths = ["o%d" % k] if use_dir else paths
    if kind in ("scan", "fix"):
        op["rt"] = {"kind": "cli", "argv": flags + [kind] + target_paths}
    elif kind == "list":
        op["rt"] = {"kind": "cli", "argv": flags + ["scan", "--list-files"] + target_paths}
    elif kind == "scan-stdin":
        name = sorted(files)[0]
        op["rt"] = {"kind": "cli", "argv": flags + ["scan-stdin"], "stdin_b64": op["files"][name]["b64"], "stdin_chunks": [rng.choice([1, 3, 16, 4096])]}
    elif kind.startswith("sub-"):
        sub = {"sub-plugins": ["plugins", "list"], "sub-extensions": ["extensions", "list"], "sub-version": ["version"]}[kind]
        op["rt"] = {"kind": "cli", "argv": flags + sub}
    elif kind.startswith("api-"):
        call = kind[4:]
        build = []
        if rng.random() < 0.5:
            build.append(["disable_rule_by_identifier", rng.choice(["md013", "md041", "md022"])])
        if rng.random() < 0.35:
            build.append(["set_string_property", "mode.return_code_scheme", rng.choice(["minimal", "minimal", "default"])])
        if call in ("scan_path", "fix_path", "list_path"):
            target = "o%d" % k if use_dir or rng.random() < 0.4 else sorted(files)[0]
            if target == "o%d" % k and any("/" in p[len(prefix) :] for p in files):
                target = sorted(files)[0]
            args = [target]
            op["api_target"] = target
        else:
            name = sorted(files)[0]
            try:
                text = unb64(op["files"][name]["b64"]).decode("utf-8")
            except UnicodeDecodeError:
                text = "# T\n"
            if not text.strip():
                text = "# T\n\ntab\there\n"
            args = [text]
            op["api_text"] = text
        op["rt"] = {"kind": "api", "new": True, "build": build, "call": [call, args, {}]}
        op["flags"] = []
        op["scheme"] = "default"
    if probes:
        op["rt"]["probes"] = probes
    return op


def generate(rng, tier, index):
    n_ops = rng.choice([1, 1, 2, 3])
    ops = []
    logfile_first = n_ops >= 2 and rng.random() < 0.35
    for k in range(n_ops):
        if rng.random() < 0.5:
            kind = rng.choice(FIX_KINDS)
        else:
            kind = rng.choice(READONLY_KINDS)
        probe_only = kind in ("fix", "scan") and rng.random() < 0.25
        op = _gen_op(rng, k, kind, probe_only)
        if logfile_first and k > 0 and op["rt"]["kind"] == "cli" and rng.random() < 0.7:
            # later invocation logs, but names no log file of its own
            op["rt"]["argv"] = ["--log-level", rng.choice(["DEBUG", "INFO"])] + op["rt"]["argv"]
        if kind == "fix" and rng.random() < 0.12:
            op["rt"]["argv"] = ["--log-level", "INFO"] + op["rt"]["argv"]
        if kind == "fix" and not probe_only and rng.random() < 0.3:
            # a contained rule/parser fault in one file of a fix run (any pass): what is
            # announced as Fixed must still be exactly what changed
            op["want_fault"] = [rng.random(), rng.choice(["raise", "raise_after", "badtok", "oserror", "oserror"]), rng.choice(["RuntimeError", "IndexError"])]
            if op["want_fault"][1] == "oserror":
                # an operating-system error at one step of the fix (possibly persistent)
                op["want_fault"][2] = [rng.choice(["EPERM", "EACCES", "ENOSPC", "EIO"]), rng.random() < 0.5]
                if rng.random() < 0.4:
                    # the fixed content cannot be put in place, however often it is tried
                    # (immutable file, foreign file in a sticky directory)
                    op["want_fault"][2] = [rng.choice(["EPERM", "EACCES"]), True, "replace"]
            if "--continue-on-error" not in op["rt"]["argv"] and rng.random() < 0.7:
                op["rt"]["argv"] = ["--continue-on-error"] + op["rt"]["argv"]
                op["flags"] = ["--continue-on-error"] + op["flags"]
        if kind in ("scan", "scan-stdin", "api-scan_string", "api-scan_path") and rng.random() < 0.3:
            # a contained rule/parser fault inside a read-only operation: it must
            # still leave nothing behind
            op["want_fault"] = [rng.random(), rng.choice(["raise", "raise_after", "badtok"]), rng.choice(["RuntimeError", "IndexError", "AssertionError"])]
        if logfile_first and k == 0 and op["rt"]["kind"] == "cli" and rng.random() < 0.4:
            # the log file cannot be written out when the invocation ends (disk full)
            op["want_log_fault"] = [rng.choice(["flush", "flush", "close", "write"]), rng.choice(["ENOSPC", "EIO"]), rng.random()]
        if logfile_first and k == 0 and op["rt"]["kind"] == "cli":
            op["rt"]["argv"] = ["--log-file", "run%d.log" % k, "--log-level", rng.choice(["DEBUG", "INFO", "WARNING"])] + op["rt"]["argv"]
            op["logfile"] = "run%d.log" % k
        ops.append(op)
    sc = {"cls": workload.draw_class(rng), "world": workload.draw_world(rng), "ops": ops}
    pick = zlib.crc32(repr((index, [sorted(op["files"]) for op in ops])).encode("utf-8"))
    no_os_fault = not any((op.get("want_fault") or [0, ""])[1] == "oserror" for op in ops)
    if pick % 4 == 0 and no_os_fault:
        # documents of fix operations are known under a second name (hard link) that no
        # operation is given and whose extension is not eligible: fixing a document must not
        # change what that other name holds.  (Decided without drawing from the PRNG; not
        # combined with injected OS errors, where pymarkdown's documented fallback is to
        # overwrite the document in place.)
        for op in ops:
            if op["kind"] in ("fix", "api-fix_path"):
                for name in sorted(op["docs"]):
                    sc.setdefault("aliases", {})["zz_alias/%s.keep" % name.replace("/", "_")] = name
    return sc


def _plan(sc, builtin_ids):
    """Materialise the wanted faults of read-only operations from a dry run."""
    wanted = [(index, op["want_fault"]) for index, op in enumerate(sc["ops"]) if op.get("want_fault")]
    if not wanted and not any(op.get("want_log_fault") for op in sc["ops"]):
        return []
    request = _request(sc, builtin_ids)
    request["record_sites"] = True
    dry = cached_run(request, sc["cls"])
    plan = []
    if not done(dry):
        return plan
    for index, op in enumerate(sc["ops"]):
        if op.get("want_log_fault"):
            what, code, fraction = op["want_log_fault"]
            sites = [s for s in dry["result"]["sites"] if s[3] == index and s[0] == "fs/%s/work-new" % what]
            if sites:
                # the last occurrences are the ones at the end of the invocation
                site = sites[-1] if fraction < 0.7 else sites[int(fraction * len(sites)) % len(sites)]
                plan.append({"site": site[0], "file": site[1], "ord": site[2], "op": index, "act": "oserror:" + code})
    for index, (fraction, act, exc) in wanted:
        if act == "oserror":
            wanted_ops = ("rename", "copymode", "chmod", "mkstemp", "open-w", "write", "close", "copyfile", "remove")
            sites = [s for s in dry["result"]["sites"] if s[3] == index and s[0].startswith("fs/") and s[0].split("/")[1] in wanted_ops]
            if not sites:
                continue
            replace_step = [s for s in sites if s[0].split("/")[1] in ("rename", "copymode", "chmod")]
            if len(exc) > 2:
                replace_step = [s for s in sites if s[0].split("/")[1] == "rename"] or replace_step
            if replace_step and (fraction < 0.5 or len(exc) > 2):
                # the step that puts the fixed content in place
                site = replace_step[int(fraction * 2 * len(replace_step)) % len(replace_step)]
            else:
                site = sites[int(fraction * len(sites)) % len(sites)]
            entry = {"site": site[0], "file": site[1], "ord": site[2], "op": index, "act": "oserror:" + exc[0]}
            if exc[1]:
                entry["sticky"] = True
            plan.append(entry)
            continue
        if act == "badtok":
            sites = [s for s in dry["result"]["sites"] if s[3] == index and s[0] == "parse"]
        else:
            sites = [s for s in dry["result"]["sites"] if s[3] == index and s[0].startswith("cb/")]
        if not sites:
            continue
        site = sites[int(fraction * len(sites)) % len(sites)]
        entry = {"site": site[0], "file": site[1], "ord": site[2], "op": index, "act": act}
        if act != "badtok":
            entry["exc"] = exc
        plan.append(entry)
    return plan


def _request(sc, builtin_ids):
    files = {}
    rt_ops = []
    for op in sc["ops"]:
        files.update(op["files"])
        rt = copy.deepcopy(op["rt"])
        if rt["kind"] == "cli":
            rt["argv"] = [",".join(builtin_ids) if a == "<BUILTINS>" else a for a in rt["argv"]]
        rt_ops.append(rt)
    request = {"files": files, "world": sc["world"], "cpu": 60, "ops": rt_ops}
    aliases = {alias: source for alias, source in (sc.get("aliases") or {}).items() if source in files}
    if aliases:
        request["links"] = aliases
    return request


def probe_model(data):
    """Hand-verifiable model of the probe's fixes on a simple LF document."""
    text = data.decode("utf-8")
    lines = text.split("\n")
    out = []
    for line in lines:
        if line == "VP-FIXME":
            out.append("VP-FIXED")
        elif line == "# vp-token-fixme":
            out.append("## vp-token-fixme")
        else:
            out.append(line)
    return "\n".join(out).encode("utf-8")


MUTATING = {"write", "open-w", "open-a", "remove", "rename", "mkdir", "rmdir", "copyfile", "chmod", "truncate", "link", "symlink", "mkstemp", "mkdtemp", "utime", "chown", "move", "rmtree", "copymode", "copystat", "copytree", "chunk"}


def evaluate(sc):
    stats = collections.Counter()
    out = []
    builtin_ids = builtin_rule_ids()
    request = _request(sc, builtin_ids)
    plan = _plan(sc, builtin_ids)
    if plan:
        request["plan"] = plan
    reply = run(request, sc["cls"])
    value = event_digest(reply)
    if not done(reply):
        return {"violations": [], "evals": 1, "digests": [(value, False)], "stats": {"not_done": 1}, "faults": {}, "skipped": True}
    result = reply["result"]
    tree = tree_bytes(reply)
    initial = {}
    for op in sc["ops"]:
        initial.update(workload.spec_to_files(op["files"]))
    for alias, source in (sc.get("aliases") or {}).items():
        if source in initial:
            initial[alias] = initial[source]
            stats["hard_link_alias_outside_the_run"] += 1
    # events per op
    events = collections.defaultdict(list)
    current = -1
    for entry in result["log"]:
        if entry[0] == "op":
            current = entry[1]
        elif entry[0] == "fs":
            events[current].append(entry)
    own_logs = {op.get("logfile") for op in sc["ops"] if op.get("logfile")}
    nontrivial = False
    earlier_logfile = False
    for index, op in enumerate(sc["ops"]):
        view = OpView(result["ops"][index])
        kind = op["kind"]
        readonly = kind not in FIX_KINDS
        allowed_log = "<W>/" + op["logfile"] if op.get("logfile") else None
        if readonly:
            if earlier_logfile:
                stats["readonly_after_logfile"] += 1
            if kind == "scan-stdin":
                stats["stdin_scan"] += 1
            if kind in ("list", "api-list_path"):
                stats["list_files"] += 1
            for entry in events.get(index, []):
                if entry[1] in MUTATING and entry[2] != "tmp" and entry[3] != allowed_log:
                    out.append(
                        violation(
                            "C10/readonly-op-mutates",
                            "C10/readonly-op-mutates|%s|%s:%s" % (kind.split("-")[0] if kind.startswith("sub") else kind, entry[1], entry[2] if entry[3].rsplit("/", 1)[-1] not in own_logs else "earlier-log-file"),
                            {"op_index": index, "kind": kind, "event": entry[:5]},
                        )
                    )
                    break
            if op["docs"]:
                nontrivial = True
        else:
            # fix ------------------------------------------------------------
            changed = sorted(name for name in op["docs"] if tree.get(name) != initial[name])
            api = view.api
            if kind == "fix":
                announced = sorted(view.fixed)
                error = bool(view.exc) or view.exit not in (0, 3) or bool(view.err0) or any(m in view.stderr for m in ("Error", "encountered"))
                if op.get("want_fault") and not view.exc:
                    stats["fix_op_with_fault"] += 1
                    if changed != announced:
                        out.append(
                            violation(
                                "C10/fixed-announcement",
                                "C10/fixed-announcement|fix-under-fault|%s" % ("changed-not-announced" if set(changed) - set(announced) else "announced-not-changed"),
                                {"op_index": index, "changed": changed, "announced": announced, "stderr": view.stderr[-300:], "labels": op["labels"]},
                            )
                        )
            elif kind == "api-fix_path":
                announced = sorted((api or {}).get("files_fixed", [])) if api and api.get("type") == "fix" else []
                error = not api or api.get("type") != "fix"
            else:  # api-fix_string
                stats["api_fix_string"] += 1
                error = not api or api.get("type") != "fix_string"
                announced = []
                if not error:
                    was_fixed, fixed_text = api["was_fixed"], api["fixed_file"]
                    if was_fixed != (fixed_text != op["api_text"].replace("\r\n", "\n").replace("\r", "\n")):
                        out.append(
                            violation(
                                "C10/fix_string-flag",
                                "C10/fix_string-flag",
                                {"op_index": index, "was_fixed": was_fixed, "text_changed": fixed_text != op["api_text"], "input": op["api_text"][:200], "output": fixed_text[:200]},
                            )
                        )
                    if changed:
                        out.append(violation("C10/fix_string-touches-files", "C10/fix_string-touches-files", {"op_index": index, "changed": changed}))
                    nontrivial = nontrivial or was_fixed
            if kind in ("fix", "api-fix_path") and not error:
                if changed != announced:
                    out.append(
                        violation(
                            "C10/fixed-announcement",
                            "C10/fixed-announcement|%s|%s" % (kind, "changed-not-announced" if set(changed) - set(announced) else "announced-not-changed"),
                            {"op_index": index, "changed": changed, "announced": announced, "labels": op["labels"]},
                        )
                    )
                if kind == "fix":
                    expected_exit = EXIT_TABLE[op["scheme"]]["fixed"] if changed else None
                    if changed and view.exit != expected_exit:
                        out.append(violation("C10/fixed-exit", "C10/fixed-exit|changed-but-exit=%s" % view.exit, {"op_index": index, "exit": view.exit, "changed": changed, "scheme": op["scheme"]}))
                    if not changed and view.exit == 3:
                        out.append(violation("C10/fixed-exit", "C10/fixed-exit|unchanged-but-exit=3", {"op_index": index, "exit": view.exit, "scheme": op["scheme"]}))
                stats["fix_changed_some" if changed else "fix_changed_none"] += 1
                nontrivial = nontrivial or bool(changed)
                # untouched when the reference scan shows nothing fixable
                flags = [",".join(builtin_ids) if a == "<BUILTINS>" else a for a in op["flags"]]
                fixers = fix_capable_rules() | {p.upper() for p, cfg in (op.get("probes") or {}).items() if cfg.get("fix")}
                for name in changed:
                    if kind != "fix":
                        break
                    reference = solo(name, initial[name], flags, "scan", probes=op.get("probes"), cls=sc["cls"])
                    if not reference.ok or reference.view.exc or "Error" in reference.view.stderr:
                        continue
                    rules = {t[2] for t in reference.view.fail_tuples(name)}
                    if not (rules & fixers):
                        out.append(
                            violation(
                                "C10/changed-without-fixable-failure",
                                "C10/changed-without-fixable-failure|input=%s" % ("empty" if not initial[name] else "has-pragma" if b"pyml " in initial[name] else "other"),
                                {"op_index": index, "file": name, "document": op["labels"].get(name), "scan_rules": sorted(rules), "before": repr(initial[name])[:200], "after": repr(tree.get(name))[:200]},
                            )
                        )
                        break
                # probe-only model
                if op.get("probe_only") and kind == "fix":
                    for name in op["docs"]:
                        data = initial[name]
                        if b"\r" in data:
                            continue
                        want = probe_model(data)
                        if want != data:
                            stats["fix_token_fix_probe" if b"vp-token-fixme" in data else "fix_line_fix_probe"] += 1
                        if tree.get(name) != want:
                            out.append(
                                violation(
                                    "C10/probe-model",
                                    "C10/probe-model",
                                    {"op_index": index, "file": name, "document": op["labels"].get(name), "probes": op["probes"], "got": repr(tree.get(name))[:200], "want": repr(want)[:200]},
                                )
                            )
                            break
                # rewrite with identical bytes: observation only
                for entry in events.get(index, []):
                    if entry[1] in ("open-w", "copyfile", "rename") and entry[2] == "target" and entry[3][4:] not in changed:
                        stats["rewrite_identical_bytes"] += 1
                        break
                copies = sum(1 for entry in events.get(index, []) if entry[1] == "copyfile" and entry[2] in ("target", "work-new"))
                if copies > len(changed) and changed:
                    stats["fix_multi_level"] += 1  # some file was written by more than one fix level
        if op.get("logfile"):
            earlier_logfile = True
    # whole-run: tree snapshot and leftovers
    expected_names = set(initial) | own_logs
    readonly_run = all(op["kind"] not in FIX_KINDS for op in sc["ops"])
    extra = sorted(set(tree) - expected_names)
    missing = sorted(set(initial) - set(tree))
    if extra or missing:
        out.append(violation("C10/tree-files-differ", "C10/tree-files-differ|%s" % ("created" if extra else "removed"), {"created": extra, "removed": missing}))
    fix_docs = set()
    for op in sc["ops"]:
        if op["kind"] in FIX_KINDS:
            fix_docs.update(op["docs"])
    for name in sorted(initial):
        if name in fix_docs or name not in tree:
            continue
        if tree[name] != initial[name]:
            alias = name in (sc.get("aliases") or {})
            out.append(violation("C10/readonly-file-modified", "C10/readonly-file-modified" + ("|other-name-of-a-fixed-document" if alias else ""), {"file": name, "hard_link_of": (sc.get("aliases") or {}).get(name)}))
            break
    removal_fault = any(
        plan[i]["act"].startswith("oserror") and plan[i]["site"].split("/")[1] in ("remove", "rename") for i in (result.get("fired") or []) if i < len(plan)
    )
    if reply.get("tmp") and not removal_fault:  # (an injected refusal to remove a file leaves that file)
        out.append(
            violation(
                "C10/temp-left-behind",
                "C10/temp-left-behind|%s" % ("readonly-run" if readonly_run else "run-with-fix"),
                {"tmp": sorted(reply["tmp"]), "ops": [op["kind"] for op in sc["ops"]]},
            )
        )
    for entry in result["log"]:
        if entry[0] == "fs" and entry[2] in ("outside", "root") and entry[1] in MUTATING:
            out.append(violation("C10/outside-write", "C10/outside-write", {"event": entry[:5]}))
            break
    for op in sc["ops"]:
        stats["kind:" + op["kind"]] += 1
    faults = {}
    if plan:
        fired = len(result.get("fired") or [])
        faults["fault-in-readonly-op"] = [len(plan), fired]
        stats["readonly_op_with_fault"] += fired
    return {"violations": out, "evals": 1, "digests": [(value, nontrivial)], "stats": dict(stats), "faults": faults}


def reductions(sc):
    for index in range(len(sc["ops"])):
        if len(sc["ops"]) > 1:
            candidate = copy.deepcopy(sc)
            candidate["ops"].pop(index)
            yield candidate
    for index, op in enumerate(sc["ops"]):
        if op["rt"]["kind"] != "cli" or len(op["docs"]) <= 1:
            continue
        for name in op["docs"]:
            if name not in op["rt"]["argv"]:
                continue
            candidate = copy.deepcopy(sc)
            target = candidate["ops"][index]
            del target["files"][name]
            target["docs"].remove(name)
            target["rt"]["argv"].remove(name)
            yield candidate
    for index, op in enumerate(sc["ops"]):
        for field in ("want_fault", "want_log_fault"):
            if op.get(field):
                candidate = copy.deepcopy(sc)
                del candidate["ops"][index][field]
                yield candidate
    if sc["world"] != NEUTRAL_WORLD:
        candidate = copy.deepcopy(sc)
        candidate["world"] = dict(NEUTRAL_WORLD)
        yield candidate
    if sc["cls"] != [0, "utf8"]:
        candidate = copy.deepcopy(sc)
        candidate["cls"] = [0, "utf8"]
        yield candidate
    for index, op in enumerate(sc["ops"]):
        if op["rt"]["kind"] != "cli" or op.get("probe_only"):
            continue
        flags = op["flags"]
        position = 0
        while position < len(flags):
            width = 2 if flags[position] in ("--return-code-scheme", "--set", "-d", "-e", "--add-plugin") else 1
            candidate = copy.deepcopy(sc)
            target = candidate["ops"][index]
            removed = flags[position : position + width]
            target["flags"] = flags[:position] + flags[position + width :]
            argv = target["rt"]["argv"]
            for start in range(len(argv) - width + 1):
                if argv[start : start + width] == removed:
                    del argv[start : start + width]
                    break
            if removed[0] == "--return-code-scheme":
                target["scheme"] = "default"
            yield candidate
            position += width
    for index, op in enumerate(sc["ops"]):
        for name in op["docs"]:
            data = unb64(op["files"][name]["b64"])
            for smaller in workload.shrink_bytes_candidates(data, limit=8):
                candidate = copy.deepcopy(sc)
                candidate["ops"][index]["files"][name] = {"b64": b64(smaller)}
                yield candidate
