"""C07 (narrowed) - scan reports are repeatable, ordered, unique; rule failures
are wrapped.

Claimed clauses only (DESIGN.md section 4, C07):
  repeatable : one scenario executed in several worlds that differ ONLY in
               nondeterminism (hash-seed class, directory-listing permutation,
               temp names, cold/warm rule modules, order of path arguments,
               copy implementation) gives identical stdout, stderr, exit status
               and final bytes
  ordered    : each file's block of failure lines is ordered by (line, column,
               rule id) and contains no line twice; files appear in sorted order
  in range   : every reported (line, column) exists in the scanned file - an
               absolute statement evaluated on the executions this check
               performs anyway (pool documents), not a search over documents
  wrapped    : an exception injected into any rule callback reaches the user as
               a plugin error naming the rule and the action, never a traceback
"""

import collections
import copy

from .. import workload
from ..common import FAIL_RE, NEUTRAL_WORLD, OpView, done, event_digest, run, tree_bytes, violation
from ..corpus import b64, unb64
from ..pool import HASH_CLASSES

PROP = "C07"
LEVEL = "exploration"
COUNTS = {"quick": 500, "thorough": 12000}
WALL = {"quick": 900, "thorough": 6000}
RULE = (
    "scenario = 1-4 pool documents, scan or fix, seeded rule selection (default / all rules incl. default-disabled / one rule alone / "
    "random -d), executed in 4 worlds that differ only in hash-seed class, directory-listing permutation, temp names, cold vs warm "
    "rule modules, order of path arguments and copy implementation; plus one execution with an exception injected at a seeded rule "
    "callback.  Non-trivial = >= 1 failure line or Fixed line was printed; distinct = distinct digest of the first world's execution."
)
ASSUMPTIONS = [
    "documents are pool documents as they are (plus CRLF / final-newline toggles), never concatenations: the range and uniqueness clauses are absolute statements and the reachable (document x setting) space was swept once when the known findings were recorded (MD041 line beyond file; MD032/MD044 duplicate line)",
    "only the clauses that meet nondeterminism or faults are claimed; 'position exists in the file' and 'no rule crashes on any document' are input-quantified and not decided here",
    "worlds differ only in nondeterminism the code does not control; everything else (documents, names, flags) is identical",
]
PROBES = ["probe_chain_scenarios", "positions_checked", "worlds_compared", "failure_blocks_checked", "wrapped_checked", "mode:scan", "mode:fix", "rules:alone", "rules:all", "multi_rule_same_position"]


def generate(rng, tier, index):
    from ..common import builtin_rule_ids  # noqa: F401

    mode = rng.choice(["scan", "scan", "fix"])
    docs = workload.draw_docs(rng, rng.choice([1, 2, 3, 4]), need=["failing"] if rng.random() < 0.7 else None, allow_concat=False)
    if rng.random() < 0.3:
        from .. import corpus

        pool = corpus.load()
        edge = sorted(n for n in pool if pool[n].group == "edge" and pool[n].tags.get("lines", 0) < 300)
        name = rng.choice(edge)
        docs[rng.randrange(len(docs))] = (name, pool[name].data)
    if rng.random() < 0.15:
        from .. import corpus

        pool = corpus.load()
        # documents whose diagnostics come from iterating a collection of identifiers
        name = rng.choice(["pr_bad_multi", "pr_bad_multi", "pr_bad", "pr_disable_open", "pr_num_lines_eof"])
        docs[rng.randrange(len(docs))] = (name, pool[name].data)
    files, labels = workload.assign_names(rng, docs)
    selection = rng.choice(["default", "default", "all", "alone", "random"])
    flags = []
    if selection == "all":
        flags = ["-e", "md002,md006,pml100,pml101"]
    elif selection == "alone":
        flags = ["<ALONE>", rng.choice(["md009", "md010", "md012", "md013", "md022", "md027", "md031", "md032", "md041", "md047", "md005", "md007", "md029", "md030", "md044", "md001"])]
    elif selection == "random":
        flags, _ = workload.draw_config_flags(rng, allow_scheme=False)
    if rng.random() < 0.5:
        flags = ["--continue-on-error"] + flags
    use_dir = rng.random() < 0.3
    chain = rng.random() < 0.15
    if chain:
        # three probe rules at ONE fix level whose line fixes do not commute; the
        # order of the --add-plugin arguments is a world parameter
        from .. import corpus

        pool = corpus.load()
        mode = "fix" if rng.random() < 0.8 else "scan"
        for position in range(len(docs)):
            name = rng.choice(["vp_line", "vp_line_last", "vp_both", "vp_and_builtin"])
            docs[position] = (name, pool[name].data)
        files, labels = workload.assign_names(rng, docs)
    worlds = []
    for _ in range(4):
        worlds.append({"cls": [rng.choice(HASH_CLASSES), "utf8"], "world": workload.draw_world(rng), "perm": rng.randrange(1 << 20)})
    worlds[0]["cls"] = [0, "utf8"]
    worlds[1]["cls"] = [rng.choice([1, 2, 3, 101]), "utf8"]
    return {
        "mode": mode,
        "files": workload.files_to_spec(files),
        "labels": labels,
        "flags": flags,
        "selection": selection,
        "use_dir": use_dir,
        "worlds": worlds,
        "fault": [rng.random(), rng.choice(["raise", "raise_after"]), rng.choice(["RuntimeError", "IndexError", "AssertionError", "KeyError", "TypeError"])],
        "chain": chain,
    }


def _flags(sc, builtin_ids):
    flags = list(sc["flags"])
    if "<ALONE>" in flags:
        position = flags.index("<ALONE>")
        alone = flags[position + 1]
        flags[position : position + 2] = ["-d", ",".join(r for r in builtin_ids if r != alone)]
    return flags


def _request(sc, world, builtin_ids, plan=None, record_sites=False):
    import random

    names = sorted(sc["files"])
    if sc["use_dir"]:
        tail = ["-r", "."]
    else:
        tail = list(names)
        random.Random(world["perm"]).shuffle(tail)
    op = {"kind": "cli", "argv": _flags(sc, builtin_ids) + [sc["mode"]] + tail}
    if sc.get("chain"):
        order = ["aaa000", "md016", "zzz999"]
        random.Random(world["perm"] + 7).shuffle(order)
        op["argv"] = workload.probe_flags(order) + op["argv"]
        op["probes"] = {pid: {"fix": True, "level": 0, "chain": True} for pid in order}
    request = {
        "files": sc["files"],
        "world": world["world"],
        "cpu": 60,
        "ops": [op],
    }
    if plan:
        request["plan"] = plan
    if record_sites:
        request["record_sites"] = True
    return request


def evaluate(sc):
    from ..common import builtin_rule_ids

    stats = collections.Counter()
    out = []
    builtin_ids = builtin_rule_ids()
    first = None
    first_view = None
    value = None
    nontrivial = False
    for index, world in enumerate(sc["worlds"]):
        reply = run(_request(sc, world, builtin_ids), world["cls"])
        if index == 0:
            value = event_digest(reply)
        if not done(reply):
            if index == 0:
                return {"violations": [], "evals": 1, "digests": [(value, False)], "stats": {"not_done": 1}, "faults": {}, "skipped": True}
            out.append(violation("C07/repeatable", "C07/repeatable|status", {"world": world, "status": reply.get("status")}))
            break
        op = reply["result"]["ops"][0]
        signature = {"exit": op.get("exit"), "exc": op.get("exc"), "stdout": op.get("stdout"), "stderr": op.get("stderr"), "tree": {k: v for k, v in reply.get("work", {}).items()}}
        if sc["use_dir"]:
            pass
        if first is None:
            first = signature
            first_view = OpView(op)
            nontrivial = bool(first_view.fail or first_view.fixed)
        else:
            stats["worlds_compared"] += 1
            if signature != first:
                field = next(k for k in ("exit", "exc", "stdout", "stderr", "tree") if signature[k] != first[k])
                out.append(
                    violation(
                        "C07/repeatable",
                        "C07/repeatable|%s|%s" % (sc["mode"], field),
                        {
                            "field": field,
                            "world_a": sc["worlds"][0],
                            "world_b": world,
                            "a": repr(first[field])[:500],
                            "b": repr(signature[field])[:500],
                            "labels": sc["labels"],
                        },
                    )
                )
                break
    # ordered / unique ---------------------------------------------------------
    if first_view is not None and not first_view.exc:
        file_order = []
        for line in first_view.stdout.split("\n"):
            match = FAIL_RE.match(line)
            if match and (not file_order or file_order[-1] != match.group("file")):
                file_order.append(match.group("file"))
        if len(set(file_order)) != len(file_order):
            out.append(violation("C07/ordered", "C07/ordered|file-blocks-interleave", {"files": file_order}))
        elif file_order != sorted(file_order):
            out.append(violation("C07/ordered", "C07/ordered|files-not-sorted", {"files": file_order}))
        for name, lines in first_view.fail.items():
            stats["failure_blocks_checked"] += 1
            keys = []
            for line in lines:
                match = FAIL_RE.match(line)
                keys.append((int(match.group("line")), int(match.group("col")), match.group("rule")))
            if len(set(k[:2] for k in keys)) < len(keys):
                stats["multi_rule_same_position"] += 1
            # in range: the line exists, the column lies within it (or one past its end)
            plain = name[2:] if name.startswith("./") else name
            data = unb64(sc["files"][plain]["b64"]) if plain in sc["files"] else None
            if data is not None:
                try:
                    doc_lines = data.decode("utf-8").replace("\r\n", "\n").replace("\r", "\n").split("\n")
                except UnicodeDecodeError:
                    doc_lines = None
                if doc_lines is not None and sc["mode"] == "scan":
                    stats["positions_checked"] += len(keys)
                    for line_number, column, rule in keys:
                        if not 1 <= line_number <= len(doc_lines):
                            out.append(
                                violation(
                                    "C07/range",
                                    "C07/range|line-beyond-file|%s" % rule,
                                    {"file": name, "document": sc["labels"].get(plain), "reported": [line_number, column, rule], "lines_in_file": len(doc_lines)},
                                )
                            )
                            break
                        if not 1 <= column <= len(doc_lines[line_number - 1]) + 1:
                            out.append(
                                violation(
                                    "C07/range",
                                    "C07/range|column-beyond-line|%s" % rule,
                                    {"file": name, "document": sc["labels"].get(name), "reported": [line_number, column, rule], "line_length": len(doc_lines[line_number - 1])},
                                )
                            )
                            break
            if keys != sorted(keys):
                out.append(violation("C07/ordered", "C07/ordered|not-sorted", {"file": name, "document": sc["labels"].get(name), "lines": lines[:12]}))
                break
            if len(set(lines)) != len(lines):
                dup = [line for line, count in collections.Counter(lines).items() if count > 1]
                rule = FAIL_RE.match(dup[0]).group("rule")
                out.append(violation("C07/unique", "C07/unique|duplicate-line|%s" % rule, {"file": name, "document": sc["labels"].get(name), "duplicates": dup[:5]}))
                break
    # wrapped -------------------------------------------------------------------
    world = sc["worlds"][0]
    dry = run(_request(sc, world, builtin_ids, record_sites=True), world["cls"])
    faults = {}
    if done(dry):
        sites = [s for s in dry["result"]["sites"] if s[0].startswith("cb/")]
        if sites:
            site = sites[int(sc["fault"][0] * len(sites)) % len(sites)]
            plan = [{"site": site[0], "file": site[1], "ord": site[2], "act": sc["fault"][1], "exc": sc["fault"][2]}]
            reply = run(_request(sc, world, builtin_ids, plan=plan), world["cls"])
            fired = bool(done(reply) and reply["result"].get("fired"))
            faults["cb:" + sc["fault"][1]] = [1, 1 if fired else 0]
            if fired:
                stats["wrapped_checked"] += 1
                view = OpView(reply["result"]["ops"][0])
                plugin_id, action = site[0].split("/")[1].upper(), site[0].split("/")[2]
                if view.exc:
                    out.append(violation("C07/wrapped", "C07/wrapped|traceback", {"plan": plan, "exc": view.exc}))
                elif ("'%s'" % plugin_id) not in view.stderr or ("'%s'" % action) not in view.stderr:
                    out.append(violation("C07/wrapped", "C07/wrapped|not-named", {"plan": plan, "stderr": view.stderr[-500:]}))
                elif view.exit != 1:
                    out.append(violation("C07/wrapped", "C07/wrapped|exit=%s" % view.exit, {"plan": plan, "exit": view.exit}))
    stats["mode:" + sc["mode"]] += 1
    stats["rules:" + sc["selection"]] += 1
    if sc.get("chain"):
        stats["probe_chain_scenarios"] += 1
    return {"violations": out, "evals": 0, "digests": [(value, nontrivial)], "stats": dict(stats), "faults": faults}


def reductions(sc):
    names = sorted(sc["files"])
    if len(names) > 1:
        for name in names:
            candidate = copy.deepcopy(sc)
            del candidate["files"][name]
            yield candidate
    if len(sc["worlds"]) > 2:
        for index in range(1, len(sc["worlds"])):
            candidate = copy.deepcopy(sc)
            candidate["worlds"] = [sc["worlds"][0], sc["worlds"][index]]
            yield candidate
    for index, world in enumerate(sc["worlds"]):
        if world["world"] != NEUTRAL_WORLD:
            candidate = copy.deepcopy(sc)
            candidate["worlds"][index]["world"] = dict(NEUTRAL_WORLD)
            yield candidate
        if index > 0 and world["cls"] != [0, "utf8"]:
            candidate = copy.deepcopy(sc)
            candidate["worlds"][index]["cls"] = [0, "utf8"]
            yield candidate
    if sc["flags"]:
        candidate = copy.deepcopy(sc)
        candidate["flags"] = []
        candidate["selection"] = "default"
        yield candidate
    for name in names:
        data = unb64(sc["files"][name]["b64"])
        for smaller in workload.shrink_bytes_candidates(data, limit=8):
            candidate = copy.deepcopy(sc)
            candidate["files"][name] = {"b64": b64(smaller)}
            yield candidate
