"""C15 - failures are contained: reported, never success, nothing damaged.

Workload: 1-5 pool documents, scan or fix, with/without --continue-on-error.
Faults (one per faulted execution, several per workload): exception at a rule
callback invocation, parser failure (before parsing / at a provider read),
undecodable file, process kill and OS error at audited file-system steps of the
fix of a file (incl. the write-back and, in emulation worlds, between copy
chunks).  Sites are taken from a dry run of the same workload in the same world.

Oracle: DESIGN.md section 4 (C15), clauses 1-5; expectations come from the
"failing file absent" run and from solo reference runs of the same code.
"""

import copy
import zlib

from .. import carriers, workload
from ..common import NEUTRAL_WORLD, OpView, cached_run, done, event_digest, run, solo, tree_bytes, violation
from ..corpus import b64, unb64

PROP = "C15"
LEVEL = "fault_enumeration"
COUNTS = {"quick": 300, "thorough": 4000}
WALL = {"quick": 900, "thorough": 5000}
RULE = (
    "scenario = seeded workload (1-5 pool documents, names, scan|fix, flags, world) + list of faults drawn from the sites "
    "its dry run reached (thorough: every audited fs step of every fix x {kill, kill_trunc, kill_partial, EIO/ENOSPC/EACCES}, "
    "every callback kind x first/middle/last ordinal x {raise, run-then-raise}, every parser call, provider reads, an undecodable "
    "file at every position); one faulted execution per fault.  An execution is non-trivial when >=1 file was processed and the "
    "planned fault actually fired; distinct = distinct digest of (status, outputs, event log, final tree)."
)
ASSUMPTIONS = [
    "process-crash model: every completed system call is durable (pymarkdown never fsyncs; the property speaks of process termination)",
    "kill points exist at audited events and between emulated copy chunks; a kill inside one real write is represented by the synthesised truncated / k-byte-prefix states",
    "expectations are differential: 'failing file absent' run and solo reference runs of the same tree, so document-dependent parser/rule bugs cancel out",
    "after a kill only 'untouched or completely fixed' is judged; after an injected OS error the reporting clause is recorded, not judged",
]
PROBES = [
    "fired:interrupt",
    "hard_linked_documents",
    "shape:dirty-chain",
    "shape:stdin",
    "stdin_faults_judged",
    "through_api",
    "two_faults_in_one_run",
    "kill_during_working_copy_write",
    "kill_at_replace_step",
    "fault_in_nonfirst_file_with_later_file",
    "fault_in_rescan",
    "fault_in_token_pass_completed_file",
    "natural_parser_failure",
    "copy_multi_chunk",
    "fault_fired",
    "undecodable",
]

THOROUGH_FAULTS_PER_WORKLOAD = 120
EXCS = ["RuntimeError", "IndexError", "AssertionError", "KeyError"]
OSERRS = ["EIO", "ENOSPC", "EACCES", "ENOENT"]


# ---------------------------------------------------------------- requests


def _argv(sc, paths):
    return list(sc["flags"]) + [sc["mode"]] + list(paths)


class _ApiView:
    """The API's exception / result mapping seen through the same lens as a CLI run."""

    def __init__(self, op_result):
        api = op_result.get("api") or {}
        self.exc = op_result.get("exc")
        self.stderr = api.get("reason", "") if api.get("type") == "exception" else ""
        self.exit = 1 if api.get("type") == "exception" else (3 if api.get("files_fixed") else 0)
        self.api = api

    def per_file(self, name):
        return {}


def _view(sc, op_result):
    return _ApiView(op_result) if sc.get("api") else OpView(op_result)


def _request(sc, files, paths, plan=None, record_sites=False, world=None):
    if sc.get("api"):
        # the API has no continue-on-error switch; one call over the whole tree
        build = []
        flags = list(sc["flags"])
        index = 0
        while index < len(flags):
            if flags[index] == "--add-plugin":
                build.append(["add_plugin_path", flags[index + 1]])
                index += 2
            elif flags[index] == "-d":
                build.extend(["disable_rule_by_identifier", rule] for rule in flags[index + 1].split(","))
                index += 2
            else:
                index += 1
        call = "fix_path" if sc["mode"] == "fix" else "scan_path"
        op = {"kind": "api", "new": True, "build": build, "call": [call, ["."], {"recurse_if_directory": True}]}
    else:
        op = {"kind": "cli", "argv": _argv(sc, paths)}
    if sc.get("probes"):
        op["probes"] = sc["probes"]
    request = {
        "files": files,
        "world": world if world is not None else sc["world"],
        "cpu": 30,
        "ops": [op],
    }
    links = {alias: source for alias, source in (sc.get("links") or {}).items() if source in files}
    if links:
        request["links"] = links
    moved = {name: _real_name(name) for name in sc.get("symlinked") or [] if name in files}
    if moved:
        # the document named on the command line is a symbolic link; its real file lives in
        # a directory that no argument names
        files = dict(files)
        for name, real in moved.items():
            files[real] = files.pop(name)
        request["files"] = files
        request["symlinks"] = moved
        request["curfile_via_symlink"] = True
    if plan:
        request["plan"] = plan
    if record_sites:
        request["record_sites"] = True
    return request


def _real_name(name):
    return "zz_real/" + name.replace("/", "_")


# ---------------------------------------------------------------- generation


def _flags(rng, probe_ids, rules):
    flags = []
    coe = rng.random() < 0.6
    if coe:
        flags.append("--continue-on-error")
    scheme = rng.choice(["default", "default", "minimal"])
    if scheme == "minimal" or rng.random() < 0.2:
        flags += ["--return-code-scheme", scheme]
    flags += workload.probe_flags(probe_ids)
    if rng.random() < 0.12:
        # informational logging switched on: must not change how failures are contained
        flags = ["--log-level", "INFO"] + flags
    elif rng.random() < 0.10:
        flags = [rng.choice(["--stack-trace", "--stack-trace", "--set=log.stack-trace=$!True"])] + flags
    if rules == "some_disabled":
        flags += ["-d", ",".join(rng.sample(["md009", "md010", "md012", "md013", "md022", "md041", "md047", "md031", "md032"], 3))]
    return flags, coe, scheme


def _enumerate_faults(rng, sites, mode, names, tier):
    """sites: [[site, file, ord, op], ...] from the dry run."""
    faults = []
    cb = [s for s in sites if s[0].startswith("cb/") and s[1] in names]
    parse = [s for s in sites if s[0] == "parse" and s[1] in names]
    prov = [s for s in sites if s[0] == "prov" and s[1] in names]
    fs = [s for s in sites if (s[0].startswith("fs/") or s[0] == "copy/chunk") and s[1] in names]

    def plan(site, act, exc=None):
        entry = {"site": site[0], "file": site[1], "ord": site[2], "act": act}
        if exc:
            entry["exc"] = exc
        return entry

    def cb_fault(site):
        if mode == "fix" and rng.random() < 0.08:
            return {"kind": "interrupt", "file": site[1], "plan": plan(site, "interrupt")}
        act = rng.choice(["raise", "raise_after"])
        return {"kind": "cb", "file": site[1], "plan": plan(site, act, rng.choice(EXCS))}

    def fs_faults(site, everything):
        out = []
        acts = ["kill"]
        if site[0] == "fs/open-w/target":
            acts += ["kill_trunc", "kill_partial:0.5"] + (["kill_partial:0.1", "kill_partial:0.9"] if everything else [])
        errs = OSERRS if everything else [rng.choice(OSERRS)]
        for act in acts:
            out.append({"kind": "kill", "file": site[1], "plan": plan(site, act)})
        for err in errs:
            entry = plan(site, "oserror:" + err)
            if rng.random() < 0.3:
                entry["sticky"] = True  # a persistent condition: retries fail as well
            out.append({"kind": "oserror", "file": site[1], "plan": entry})
        # Ctrl-C delivered at this step: an in-process fault that is not an Exception
        out.append({"kind": "interrupt", "file": site[1], "plan": plan(site, "interrupt")})
        return out

    if tier == "thorough":
        by_kind = {}
        for site in cb:
            by_kind.setdefault((site[0], site[1]), []).append(site)
        keys = sorted(by_kind)
        rng.shuffle(keys)
        for key in keys[:40]:
            occurrences = by_kind[key]
            picks = {0, len(occurrences) // 2, len(occurrences) - 1}
            for index in sorted(picks):
                faults.append(cb_fault(occurrences[index]))
        for site in parse:
            faults.append({"kind": "parse", "file": site[1], "plan": plan(site, "badtok")})
        per_file = {}
        for site in prov:
            per_file.setdefault(site[1], []).append(site)
        for occurrences in per_file.values():
            for index in sorted({0, len(occurrences) // 2, len(occurrences) - 1}):
                faults.append({"kind": "prov", "file": occurrences[index][1], "plan": plan(occurrences[index], "raise", "RuntimeError")})
        if mode == "fix":
            for site in fs:
                faults.extend(fs_faults(site, True))
        else:
            for site in rng.sample(fs, min(3, len(fs))):
                faults.append({"kind": "oserror", "file": site[1], "plan": plan(site, "oserror:" + rng.choice(OSERRS))})
        for name in names:
            faults.append({"kind": "undecodable", "file": name, "plan": None, "poison": rng.choice(sorted(carriers.POISON))})
        if mode == "fix":
            # process death in the middle of rule dispatch / parsing (nothing may be damaged)
            inflight = cb + parse + prov
            for site in rng.sample(inflight, min(12, len(inflight))):
                faults.append({"kind": "kill", "file": site[1], "plan": plan(site, "kill")})
        faults.extend(_double_faults(rng, cb, parse, names, plan, 4))
        if len(faults) > THOROUGH_FAULTS_PER_WORKLOAD:
            # keep every fault at a step that touches a document or its working copy,
            # fill up with a seeded sample of the rest (bounded work per workload, so the
            # wall cap of the sweep stays meaningful)
            def near_document(fault):
                site = (fault.get("plan") or {}).get("site", "")
                return site.startswith("fs/") and site.split("/")[2] in ("target", "work-new") or site == "copy/chunk"

            keep = [f for f in faults if near_document(f)]
            rest = [f for f in faults if not near_document(f)]
            rng.shuffle(keep)
            rng.shuffle(rest)
            faults = (keep + rest)[:THOROUGH_FAULTS_PER_WORKLOAD]
        return faults

    # quick: a handful, spread over kinds
    wanted = 5
    if mode == "fix" and rng.random() < 0.3 and (cb or parse):
        site = rng.choice(cb + parse + prov)
        faults.append({"kind": "kill", "file": site[1], "plan": plan(site, "kill")})
    if rng.random() < 0.3:
        faults.extend(_double_faults(rng, cb, parse, names, plan, 1))
    for _ in range(wanted):
        roll = rng.random()
        if mode == "fix" and fs and roll < 0.40:
            writeback = [s for s in fs if s[0] in ("fs/copyfile/target", "fs/open-w/target", "copy/chunk", "fs/open-r/tmp", "fs/remove/tmp", "fs/rename/target", "fs/rename/work-new", "fs/open-w/work-new")]
            site = rng.choice(writeback if writeback and rng.random() < 0.7 else fs)
            faults.append(rng.choice(fs_faults(site, False)))
        elif cb and roll < 0.75:
            action = rng.choice(["starting_new_file", "next_token", "next_line", "completed_file"])
            of_action = [s for s in cb if s[0].endswith("/" + action)] or cb
            faults.append(cb_fault(rng.choice(of_action)))
        elif parse and roll < 0.85:
            faults.append({"kind": "parse", "file": (site := rng.choice(parse))[1], "plan": plan(site, "badtok")})
        elif prov and roll < 0.90:
            faults.append({"kind": "prov", "file": (site := rng.choice(prov))[1], "plan": plan(site, "raise", "RuntimeError")})
        else:
            faults.append({"kind": "undecodable", "file": rng.choice(names), "plan": None, "poison": rng.choice(sorted(carriers.POISON))})
    return faults


def _double_faults(rng, cb, parse, names, plan, count):
    """Two contained faults in two different files of one run."""
    out = []
    if len(names) < 2:
        return out
    for _ in range(count):
        first, second = rng.sample(names, 2)
        picks = []
        for name in (first, second):
            candidates = [s for s in cb + parse if s[1] == name]
            if not candidates:
                break
            site = rng.choice(candidates)
            if site[0] == "parse":
                picks.append(plan(site, "badtok"))
            else:
                picks.append(plan(site, rng.choice(["raise", "raise_after"]), rng.choice(EXCS)))
        if len(picks) == 2:
            out.append({"kind": "cb" if picks[0]["site"] != "parse" else "parse", "file": first, "plan": picks[0], "more": [{"file": second, "plan": picks[1]}], "needs_coe": True})
    return out


def _generate_dirty_chain(rng, tier):
    """a b1 a b2 ... with --continue-on-error: every `a` is cut short in the middle of
    its token / line dispatch (exception at the last rule in dispatch order, after all
    built-in rules have seen half of the document) or by a parser failure at its middle
    line; every b must be processed exactly as if the a files were absent."""
    from .. import corpus

    docs = corpus.load()
    usable = [n for n in corpus.usable(docs) if n in carriers.CARRIERS and docs[n].tags.get("lines", 0) < 200]
    a_name = rng.choice(usable)
    same_group = [n for n in usable if docs[n].group == docs[a_name].group]
    b_names = [rng.choice(same_group if rng.random() < 0.5 else usable) for _ in range(rng.choice([3, 4, 5]))]
    mode = rng.choice(["scan", "scan", "fix"])
    files, labels, a_files = {}, {}, []
    position = 0
    for b_name in b_names:
        for name in (a_name, b_name):
            path = "f%03d.md" % position
            files[path] = docs[name].data
            labels[path] = name
            if name == a_name and position % 2 == 0:
                a_files.append(path)
            position += 1
    probes = {"zzz999": {"fix": mode == "fix", "level": 0}}
    flags = ["--continue-on-error"] + workload.probe_flags(["zzz999"])
    sc = {
        "cls": workload.draw_class(rng),
        "world": workload.draw_world(rng),
        "files": workload.files_to_spec(files),
        "labels": labels,
        "mode": mode,
        "flags": flags,
        "api": False,
        "coe": True,
        "scheme": "default",
        "probes": probes,
        "paths": sorted(files),
        "tier": tier,
        "faults": [],
        "shape": "dirty-chain",
    }
    dry = cached_run(_request(sc, sc["files"], sc["paths"], record_sites=True), sc["cls"])
    if not done(dry):
        sc["skip"] = "dry run status %s" % dry.get("status")
        return sc
    phase = rng.choice(["token", "line", "prov"])
    site_name = {"token": "cb/zzz999/next_token", "line": "cb/zzz999/next_line", "prov": "prov"}[phase]
    plans = []
    for path in a_files:
        occurrences = [s for s in dry["result"]["sites"] if s[0] == site_name and s[1] == path]
        if not occurrences:
            continue
        site = occurrences[(len(occurrences) - 1) // 2] if rng.random() < 0.6 else rng.choice(occurrences)
        entry = {"site": site[0], "file": site[1], "ord": site[2], "act": "raise" if phase == "prov" else "raise_after", "exc": "RuntimeError"}
        plans.append((path, entry))
    if plans:
        first = plans[0]
        sc["faults"] = [{"kind": "prov" if phase == "prov" else "cb", "file": first[0], "plan": first[1], "more": [{"file": p, "plan": e} for p, e in plans[1:]], "needs_coe": True}]
    return sc


def _generate_stdin(rng, tier):
    """The document arrives on standard input (CLI) or as a string (API): the same
    containment is owed - error reported, system-error result, nothing left behind."""
    label, data = workload.draw_docs(rng, 1, allow_concat=False)[0]
    data = data[:20000]
    use_api = rng.random() < 0.3
    flags, coe, scheme = _flags(rng, [], rng.choice(["default", "some_disabled"]))
    sc = {
        "cls": workload.draw_class(rng),
        "world": workload.draw_world(rng),
        "shape": "stdin",
        "label": label,
        "doc": b64(data),
        "flags": flags,
        "api": use_api,
        "coe": coe,
        "scheme": scheme,
        "mode": "scan",
        "stdin_chunks": [rng.choice([1, 7, 64, 4096])],
        "tier": tier,
        "faults": [],
    }
    if use_api:
        try:
            data.decode("utf-8")
        except UnicodeDecodeError:
            sc["skip"] = "document is not text"
            return sc
        sc["flags"], sc["coe"], sc["scheme"] = [], False, "default"
    dry = cached_run(_stdin_request(sc, record_sites=True), sc["cls"])
    if not done(dry):
        sc["skip"] = "dry run status %s" % dry.get("status")
        return sc
    sites = dry["result"]["sites"]
    cb = [s for s in sites if s[0].startswith("cb/")]
    parse = [s for s in sites if s[0] == "parse"]
    prov = [s for s in sites if s[0] == "prov"]
    fs = [s for s in sites if s[0].startswith("fs/")]

    def plan(site, act, exc=None):
        entry = {"site": site[0], "file": site[1], "ord": site[2], "act": act}
        if exc:
            entry["exc"] = exc
        return entry

    faults = []
    for site in rng.sample(cb, min(len(cb), 6 if tier == "quick" else 30)):
        faults.append({"kind": "cb", "plan": plan(site, rng.choice(["raise", "raise_after"]), rng.choice(EXCS))})
    for site in parse:
        faults.append({"kind": "parse", "plan": plan(site, "badtok")})
    for site in rng.sample(prov, min(len(prov), 2 if tier == "quick" else 6)):
        faults.append({"kind": "prov", "plan": plan(site, "raise", "RuntimeError")})
    for site in rng.sample(fs, min(len(fs), 4 if tier == "quick" else 40)):
        entry = plan(site, "oserror:" + rng.choice(OSERRS))
        faults.append({"kind": "oserror", "plan": entry})
    if not use_api:
        faults.append({"kind": "undecodable", "poison": rng.choice(sorted(carriers.POISON))})
    sc["faults"] = faults
    return sc


def _stdin_request(sc, plan=None, record_sites=False, poison=None):
    data = sc["doc"] if poison is None else b64(carriers.POISON[poison])
    if sc["api"]:
        op = {"kind": "api", "new": True, "build": [], "call": ["scan_string", [unb64(data).decode("utf-8")], {}]}
    else:
        op = {"kind": "cli", "argv": list(sc["flags"]) + ["scan-stdin"], "stdin_b64": data, "stdin_chunks": sc["stdin_chunks"]}
    request = {"files": {}, "world": sc["world"], "cpu": 30, "ops": [op]}
    if plan:
        request["plan"] = plan
    if record_sites:
        request["record_sites"] = True
    return request


def _evaluate_stdin(sc):
    import collections

    stats = collections.Counter()
    violations, digests = [], []
    faults = collections.defaultdict(lambda: [0, 0])
    evals = 1
    entry_point = "scan_string" if sc["api"] else "scan-stdin"
    for fault in sc["faults"]:
        reply = run(_stdin_request(sc, plan=[fault["plan"]] if fault.get("plan") else None, poison=fault.get("poison")), sc["cls"])
        evals += 1
        kind = fault["kind"]
        faults[kind][0] += 1
        value = event_digest(reply)
        if not done(reply):
            digests.append((value, False))
            continue
        fired = bool(reply["result"].get("fired")) or kind == "undecodable"
        digests.append((value, fired))
        if not fired:
            continue
        faults[kind][1] += 1
        stats["fault_fired"] += 1
        stats["stdin_faults_judged"] += 1
        view = _view(sc, reply["result"]["ops"][0])
        where = "%s|%s|coe=%s" % (entry_point, kind, sc["coe"])
        detail = {"fault": fault, "flags": sc["flags"], "entry": entry_point, "document": sc["label"], "exit": view.exit, "stderr": view.stderr[-300:], "exc": view.exc}
        if view.exc:
            violations.append(violation("C15/traceback", "C15/traceback|" + where, detail))
            continue
        expected = 1  # system error, both schemes
        if view.exit != expected:
            violations.append(violation("C15/exit", "C15/exit:not-system-error|" + where, detail))
        if not view.stderr.strip():
            violations.append(violation("C15/reported", "C15/reported:nothing|" + where, detail))
        left = sorted(reply.get("tmp") or {})
        at_cleanup = kind == "oserror" and fault["plan"]["site"].split("/")[1] in ("remove", "unlink", "rename", "replace")
        if left and not at_cleanup:
            violations.append(violation("C15/temp-left", "C15/temp-left|" + where, dict(detail, left=left)))
        if reply.get("work"):
            violations.append(violation("C15/damage", "C15/damage:file-created|" + where, dict(detail, created=sorted(reply["work"]))))
    stats["shape:stdin"] += 1
    stats["coe:%s" % sc["coe"]] += 1
    if sc["api"]:
        stats["through_api"] += 1
    return {"violations": violations, "evals": evals, "digests": digests, "stats": dict(stats), "faults": dict(faults)}


def generate(rng, tier, index):
    if index % 16 == 7:
        return _generate_stdin(rng, tier)
    if rng.random() < 0.25:
        return _generate_dirty_chain(rng, tier)
    mode = rng.choice(["scan", "fix", "fix"])
    count = rng.choice([1, 2, 2, 3, 3, 4, 5])
    need = ["fixable"] if mode == "fix" and rng.random() < 0.7 else None
    # a third of the workloads take their documents from one carrier group, so that a
    # failing document is followed by one that is sensitive to the same kind of state
    group = rng.choice(["lrd", "heading", "list", "fence", "quote", "ws", "inline", "pragma"]) if rng.random() < 0.35 else None
    docs = workload.draw_docs(rng, count, need=need if group is None else None, prefer_group=group)
    if mode == "fix" and rng.random() < 0.15:
        docs[rng.randrange(len(docs))] = ("edge_2000_fixable", carriers.CARRIERS["edge_2000_fixable"][0])
    files, labels = workload.assign_names(rng, docs)
    rules = rng.choice(["default", "default", "some_disabled"])
    probe_ids = rng.choice([[], ["zzz999"], ["aaa000", "md016", "zzz999"], ["aaa000"]])
    probes = {pid: {"fix": False} for pid in probe_ids}
    flags, coe, scheme = _flags(rng, probe_ids, rules)
    paths = sorted(files)
    rng.shuffle(paths)
    use_api = rng.random() < 0.12
    if use_api:
        flags = [f for f in flags if f != "--continue-on-error"]
        cleaned, skip = [], 0
        for f in flags:
            if skip:
                skip -= 1
                continue
            if f == "--return-code-scheme":
                skip = 1
                continue
            cleaned.append(f)
        flags, coe, scheme = cleaned, False, "default"
    sc = {
        "cls": workload.draw_class(rng),
        "world": workload.draw_world(rng),
        "files": workload.files_to_spec(files),
        "labels": labels,
        "mode": mode,
        "flags": flags,
        "api": use_api,
        "coe": coe,
        "scheme": scheme,
        "probes": probes,
        "paths": paths,
        "tier": tier,
        "faults": [],
    }
    if mode == "fix" and not use_api and rng.random() < 0.15:
        # some documents are known under a second name (hard link outside the scanned set)
        for name in rng.sample(sorted(files), rng.choice([1, len(files)])):
            sc.setdefault("links", {})["zz_links/%s.alias" % name.replace("/", "_")] = name
    pick = zlib.crc32(repr((index, sorted(files), flags, mode)).encode("utf-8"))
    if mode == "fix" and not use_api and not sc.get("links") and pick % 6 == 0:
        # some documents are symbolic links (decided without drawing from the PRNG, so the
        # other workloads of a seed stay what they were)
        ordered = sorted(files)
        sc["symlinked"] = ordered if pick % 12 == 0 else [ordered[(pick // 12) % len(ordered)]]
    if rng.random() < 0.05:  # a natural parser failure somewhere in the list
        name = rng.choice(sorted(files))
        sc["files"][name] = {"b64": b64(carriers.NATURAL_PARSER_FAIL["natural_dash_tab"])}
        sc["natural"] = name
    dry = cached_run(_request(sc, sc["files"], sc["paths"], record_sites=True), sc["cls"])
    if not done(dry):
        sc["skip"] = "dry run status %s" % dry.get("status")
        return sc
    sc["faults"] = _enumerate_faults(rng, dry["result"]["sites"], mode, sorted(files), tier)
    return sc


# ---------------------------------------------------------------- oracle


def _classify_damage(final, original, fixed):
    if final is None:
        return "missing"
    if final == b"" and original:
        return "truncated-empty"
    for reference in (original, fixed):
        if reference is not None and len(final) < len(reference) and reference.startswith(final):
            return "truncated-prefix"
    return "other-content"


def _judge(sc, fault, stats):
    """-> (violations, digest, nontrivial)"""
    out = []
    mode, coe = sc["mode"], sc["coe"]
    files = dict(sc["files"])
    names = sorted(files)
    originals = workload.spec_to_files(files)
    bad = fault["file"]
    kind = fault["kind"]
    plan = [fault["plan"]] if fault.get("plan") else None
    more = fault.get("more") or []
    if more:
        if not coe:
            return out, "double-fault-needs-coe", False
        plan = plan + [m["plan"] for m in more]
        stats["two_faults_in_one_run"] += 1
    bad_files = [bad] + [m["file"] for m in more]
    faulted_files = files
    if kind == "undecodable":
        faulted_files = dict(files)
        faulted_files[bad] = {"b64": b64(carriers.POISON[fault["poison"]])}
        stats["undecodable"] += 1
    natural = sc.get("natural")

    reply = run(_request(sc, faulted_files, sc["paths"], plan=plan), sc["cls"])
    status = reply.get("status")
    result = reply.get("result")
    if kind == "undecodable":
        # the fault "fires" when the poisoned file is actually opened (an earlier
        # failing file stops a run without --continue-on-error before that)
        fired = bool(result) and any(e[0] == "fs" and e[1] == "open-r" and e[3] == "<W>/" + bad for e in result.get("log", []))
    else:
        fired = bool(result and len(result.get("fired") or []) == len(plan or []))
    value = event_digest(reply)
    site = (fault.get("plan") or {}).get("site", "undecodable")
    act = (fault.get("plan") or {}).get("act", "-")
    where = {"fault": fault, "mode": mode, "coe": coe, "status": status}

    if kind in ("kill",):
        if status == "done" and not fired:
            stats["fault_not_fired"] += 1
            return out, value, False
        if status != "killed":
            if status in ("cpu", "wall"):
                out.append(violation("C15/hang", "C15/hang|%s" % kind, where))
            return out, value, False
    else:
        if status in ("cpu", "wall"):
            out.append(violation("C15/hang", "C15/hang|%s" % kind, where))
            return out, value, False
        if status != "done":
            out.append(violation("C15/died", "C15/died|%s" % kind, dict(where, note="process ended abnormally")))
            return out, value, False
        if not fired:
            stats["fault_not_fired"] += 1
            return out, value, False
    stats["fault_fired"] += 1
    stats["fired:" + kind] += 1
    if act.startswith("kill_trunc") or act.startswith("kill_partial"):
        stats["kill_target_truncated"] += 1  # only reachable when a target is opened for writing in place
    if kind == "kill" and (site in ("copy/chunk", "fs/open-w/work-new", "fs/copyfile/work-new")):
        stats["kill_during_working_copy_write"] += 1
    if kind == "kill" and site.startswith(("fs/rename/", "fs/copymode/", "fs/chmod/")):
        stats["kill_at_replace_step"] += 1
    if site == "copy/chunk" and (fault["plan"]["ord"] >= 2):
        stats["copy_multi_chunk"] += 1
    if natural:
        stats["natural_parser_failure"] += 1
    if bad != names[0] and bad != names[-1]:
        stats["fault_in_nonfirst_file_with_later_file"] += 1
    if kind in ("parse", "prov") and mode == "fix" and fault["plan"]["ord"] >= 2 and kind == "parse":
        stats["fault_in_rescan"] += 1
    if kind == "cb" and site.endswith("/completed_file") and mode == "fix":
        stats["fault_in_token_pass_completed_file"] += 1

    work_after = tree_bytes(reply)
    tmp_after = sorted(reply.get("tmp", {}))

    # expectations -----------------------------------------------------
    others = [n for n in names if n not in bad_files]
    absent = None
    if others:
        absent_files = {n: files[n] for n in others}
        absent_reply = cached_run(_request(sc, absent_files, [p for p in sc["paths"] if p not in bad_files], world=sc["world"]), sc["cls"])
        if done(absent_reply):
            absent = (_view(sc, absent_reply["result"]["ops"][0]), tree_bytes(absent_reply))
        else:
            stats["absent_run_unusable"] += 1
    # a natural parser failure in another file makes the absent run itself an
    # error run; it stays a valid "as if absent" reference.
    solo_bad = None
    if mode == "fix":
        bad_data = originals[bad] if kind != "undecodable" else carriers.POISON[fault["poison"]]
        if kind != "undecodable" and bad != natural:
            ref = solo(bad, bad_data, [f for f in sc["flags"]], "fix", probes=sc.get("probes"), cls=sc["cls"])
            if ref.ok and ref.exit in (0, 3):
                solo_bad = ref.after
                if solo_bad == b"" and bad_data.strip():
                    # an empty "fully fixed" version of a document that has content is not
                    # trusted as a reference (for a blank-only document it is what fix makes
                    # of it: "\n" -> "")
                    solo_bad = None
                    stats["degenerate_reference"] += 1

    view = _view(sc, result["ops"][0]) if result and result.get("ops") else None

    # clause 1: reported, never success ----------------------------------
    if kind in ("cb", "parse", "prov", "undecodable") and view is not None:
        if view.exc:
            out.append(violation("C15/reported:traceback", "C15/reported:traceback|%s" % kind, dict(where, exc=view.exc)))
        elif view.exit != 1:
            out.append(violation("C15/reported:exit", "C15/reported:exit|%s|exit=%s" % (kind, view.exit), dict(where, exit=view.exit, stderr=view.stderr[-400:])))
        else:
            named = all(name in view.stderr for name in bad_files)
            if not named:
                out.append(
                    violation(
                        "C15/reported:file-not-named",
                        "C15/reported:file-not-named|%s|coe=%s" % (kind, coe),
                        dict(where, stderr=view.stderr[-500:]),
                    )
                )
    elif kind == "oserror" and view is not None:
        stats["oserror_exit:%s" % (view.exit if not view.exc else "traceback")] += 1

    # clause 2: others as if absent (continue-on-error, plugin/parser faults)
    if kind in ("cb", "parse", "prov") and coe and absent is not None and view is not None and not view.exc:
        absent_view, absent_tree = absent
        for name in others:
            got, want = view.per_file(name), absent_view.per_file(name)
            if got != want:
                out.append(
                    violation(
                        "C15/others-as-if-absent:output",
                        "C15/others-as-if-absent:output|%s" % kind,
                        dict(where, file=name, got=got, want=want),
                    )
                )
                break
            if work_after.get(name) != absent_tree.get(name):
                out.append(
                    violation(
                        "C15/others-as-if-absent:bytes",
                        "C15/others-as-if-absent:bytes|%s" % kind,
                        dict(where, file=name, got=repr(work_after.get(name))[:200], want=repr(absent_tree.get(name))[:200]),
                    )
                )
                break

    # clause 3: nothing damaged (fix mode, any fault; scan mode: nothing may change at all)
    for name in names:
        original = originals[name] if not (kind == "undecodable" and name == bad) else carriers.POISON[fault["poison"]]
        final = work_after.get(name)
        if final == original:
            continue
        if mode != "fix":
            out.append(violation("C15/damaged:scan-modified", "C15/damaged:scan-modified|%s" % kind, dict(where, file=name)))
            break
        if name == bad:
            fixed = solo_bad
        elif name in bad_files:
            extra_ref = solo(name, originals[name], [f for f in sc["flags"]], "fix", probes=sc.get("probes"), cls=sc["cls"])
            fixed = extra_ref.after if extra_ref.ok and extra_ref.exit in (0, 3) else None
        else:
            fixed = absent[1].get(name) if absent is not None else None
        if fixed is not None and final == fixed:
            continue
        damage = _classify_damage(final, original, fixed)
        if fixed is None and damage == "other-content":
            stats["unjudged_no_reference"] += 1
            continue
        if damage == "other-content":
            stats["kill_between_levels"] += 1
        out.append(
            violation(
                "C15/damaged:" + damage,
                "C15/damaged:%s|%s|%s@%s" % (damage, kind, act.split(":")[0], "/".join(site.split("/")[:3]) if not site.startswith("cb/") else "cb"),
                dict(where, file=name, final=repr(final)[:160], original=repr(original)[:160], fixed=repr(fixed)[:160]),
            )
        )
        break

    # clause 4: no temporary files after an in-process fault
    if kind in ("cb", "parse", "prov", "undecodable", "oserror", "interrupt"):
        new_in_work = sorted(set(work_after) - set(names) - set(sc.get("links") or {}) - set(_real_name(n) for n in sc.get("symlinked") or []))
        left = len(tmp_after) + len(new_in_work)
        if kind == "oserror" and site.split("/")[1] in ("remove", "rename") and (left == 1 or fault["plan"].get("sticky")):
            # the injected error was the refusal to remove/rename that very file (sticky:
            # nothing can be removed any more)
            stats["leftover_tolerated_failed_remove"] += 1
            left = 0
        if kind == "interrupt" and site.split("/")[1] == "remove":
            # the interrupt arrived inside a removal (possibly the clean-up's own): that
            # file, and whatever the interrupted clean-up had not reached, stays
            stats["leftover_tolerated_interrupted_remove"] += 1
            left = 0
        if left and kind in ("oserror", "interrupt") and result:
            # the same, whatever way the clean-up is implemented: the fault was the refusal
            # (or the interruption) of opening / listing a DIRECTORY under which everything
            # that is left lies - a clean-up that walks its work area cannot get past that
            refused_dirs = [entry[3] for entry in result.get("log", []) if entry[0] == "fault" and entry[4] and entry[1] in ("open-r", "scandir", "listdir", "rmdir")]
            leftovers = ["<T>/" + name for name in tmp_after] + ["<W>/" + name for name in new_in_work]
            if refused_dirs and all(any(item.startswith(folder.rstrip("/") + "/") for folder in refused_dirs) for item in leftovers):
                stats["leftover_tolerated_refused_directory_walk"] += 1
                left = 0
        if left:
            out.append(
                violation(
                    "C15/tempfiles-left",
                    "C15/tempfiles-left|%s" % kind,
                    dict(where, tmp=tmp_after, new_in_work=new_in_work),
                )
            )
    # kill: nothing created outside tmp and the targets' directories
    if result:
        for entry in result.get("log", []):
            if entry[0] == "fs" and entry[2] in ("outside", "root") and entry[1] not in ("open-r", "listdir", "scandir", "walk", "glob"):
                out.append(violation("C15/outside-write", "C15/outside-write|%s" % kind, dict(where, event=entry)))
                break
    return out, value, True


def evaluate(sc):
    import collections

    stats = collections.Counter()
    violations, digests = [], []
    faults = collections.defaultdict(lambda: [0, 0])
    evals = 1
    if sc.get("skip"):
        return {"violations": [], "evals": evals, "digests": [], "stats": {"skipped_dry_run": 1}, "faults": {}, "skipped": True}
    if sc.get("shape") == "stdin":
        return _evaluate_stdin(sc)
    for fault in sc["faults"]:
        before = stats["fault_fired"]
        found, value, nontrivial = _judge(sc, fault, stats)
        evals += 3
        kind = fault["kind"] + (":" + fault["plan"]["act"].split(":")[0] if fault.get("plan") else "")
        faults[kind][0] += 1
        faults[kind][1] += stats["fault_fired"] - before
        digests.append((value, nontrivial))
        violations.extend(found)
    stats["mode:" + sc["mode"]] += 1
    stats["coe:%s" % sc["coe"]] += 1
    if sc.get("api"):
        stats["through_api"] += 1
    if sc.get("shape"):
        stats["shape:" + sc["shape"]] += 1
    if sc.get("symlinked"):
        stats["shape:symlinked_documents"] += 1
    if sc.get("links"):
        stats["hard_linked_documents"] += 1
    return {"violations": violations, "evals": evals, "digests": digests, "stats": dict(stats), "faults": dict(faults)}


# ---------------------------------------------------------------- shrinking


def reductions(sc):
    # one fault
    if len(sc["faults"]) > 1:
        for fault in sc["faults"]:
            candidate = copy.deepcopy(sc)
            candidate["faults"] = [fault]
            yield candidate
        return
    if sc.get("shape") == "stdin":
        if sc["world"] != NEUTRAL_WORLD:
            candidate = copy.deepcopy(sc)
            candidate["world"] = dict(NEUTRAL_WORLD)
            yield candidate
        if sc["stdin_chunks"] != [4096]:
            candidate = copy.deepcopy(sc)
            candidate["stdin_chunks"] = [4096]
            yield candidate
        return
    fault = sc["faults"][0] if sc["faults"] else None
    names = sorted(sc["files"])
    # drop a file that is not the failing one
    for name in names:
        if fault and name == fault["file"]:
            continue
        candidate = copy.deepcopy(sc)
        del candidate["files"][name]
        candidate["paths"] = [p for p in candidate["paths"] if p != name]
        if candidate["files"]:
            yield candidate
    # neutral world / class
    if sc["world"] != NEUTRAL_WORLD:
        candidate = copy.deepcopy(sc)
        keep_chunk = sc["world"].get("copy_chunk") if fault and fault.get("plan") and fault["plan"]["site"] == "copy/chunk" else None
        candidate["world"] = dict(NEUTRAL_WORLD, copy_chunk=keep_chunk)
        if candidate["world"] != sc["world"]:
            yield candidate
    for key, neutral in NEUTRAL_WORLD.items():
        if sc["world"].get(key, neutral) != neutral:
            candidate = copy.deepcopy(sc)
            candidate["world"][key] = neutral
            yield candidate
    if sc["cls"] != [0, "utf8"]:
        candidate = copy.deepcopy(sc)
        candidate["cls"] = [0, "utf8"]
        yield candidate
    # drop flags one group at a time
    flags = sc["flags"]
    index = 0
    while index < len(flags):
        width = 2 if flags[index] in ("--return-code-scheme", "--add-plugin", "-d", "-e") else 1
        candidate = copy.deepcopy(sc)
        removed = flags[index : index + width]
        candidate["flags"] = flags[:index] + flags[index + width :]
        if removed[0] == "--continue-on-error":
            candidate["coe"] = False
        if removed[0] == "--add-plugin" and fault and fault.get("plan") and ("/%s/" % removed[1].split("/")[-1][:-3]) in fault["plan"]["site"]:
            index += width
            continue
        yield candidate
        index += width
    # shorter documents
    for name in names:
        data = unb64(sc["files"][name]["b64"])
        for smaller in workload.shrink_bytes_candidates(data, limit=10):
            candidate = copy.deepcopy(sc)
            candidate["files"][name] = {"b64": b64(smaller)}
            yield candidate
