"""pmsim - deterministic simulation with fault injection for pymarkdown.

See /verif/DESIGN.md.  Layout:
  rt.py        template worker + per-execution child runtime (seams, plans, logs)
  pool.py      template pool, execution client, parallel scenario driver
  corpus.py    document pool
  common.py    parsing of outputs, scenario helpers, reference cache
  shrink.py    ddmin
  checks/      one module per claimed property (generator + oracle)
"""
