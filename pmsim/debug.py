"""Debug helper: python -m pmsim.debug <replay.json>  -> prints the scenario's main execution."""
import json, sys, base64
sys.path.insert(0, "/verif")
from pmsim.driver import load_check
from pmsim import common

def main(path):
    doc = json.load(open(path))
    sc = doc["scenario"]
    prop = doc["property"]
    print("key:", doc["key"]); print("detail:", json.dumps(doc["detail"])[:1500])
    mod = load_check(prop)
    orig_run = common.run
    def spy(request, cls=common.DEFAULT_CLASS):
        reply = orig_run(request, cls)
        print("=== execution cls=%s status=%s plan=%s" % (cls, reply.get("status"), request.get("plan")))
        for name, spec in request.get("files", {}).items():
            print("   file %s = %r" % (name, base64.b64decode(spec["b64"])[:120]))
        for i, op in enumerate(request["ops"]):
            print("   op%d: %s" % (i, json.dumps(op)[:400]))
            res = (reply.get("result") or {}).get("ops", [])
            if i < len(res):
                r = res[i]
                print("      exit=%r exc=%r api=%s" % (r.get("exit"), r.get("exc"), str(r.get("api"))[:300]))
                print("      stdout=%r" % r.get("stdout", "")[:600]); print("      stderr=%r" % r.get("stderr", "")[:800])
                if r.get("tb"): print(r["tb"])
        print("   work after:", {k: base64.b64decode(v[0])[:80] if v[0] else None for k, v in reply.get("work", {}).items()}, "tmp:", sorted(reply.get("tmp", {})))
        return reply
    common.run = spy
    for m in ("run",):
        if hasattr(mod, m): setattr(mod, m, spy)
    out = mod.evaluate(sc)
    print("violations:", json.dumps(out["violations"])[:2000])

if __name__ == "__main__":
    main(sys.argv[1])
