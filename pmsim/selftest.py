"""Determinism self-test: the same run seed must give the same execution.

For every claimed property, scenarios 0..n-1 of the quick tier are generated and
evaluated (a) in a pool of 2 workers, (b) in a pool of 16 workers, (c) in a
fresh driver interpreter started with another PYTHONHASHSEED; the per-scenario
outcome digests (normalised event logs, outputs, exit status, final trees,
verdicts) are diffed.  Any difference is a harness error: a check that cannot
replay is not allowed to report.
"""

import json
import os
import subprocess
import sys
import time

from . import pool
from .common import digest
from .driver import CHECKS


def _task(prop, seed, index):
    from .driver import scenario_task

    outcome = scenario_task(prop, seed, index, "quick")
    return {
        "prop": prop,
        "index": index,
        "digests": outcome.get("digests"),
        "violations": digest(sorted(v["key"] for v in outcome.get("violations", []))),
        "stats": digest(outcome.get("stats")),
    }


def collect(seed, count, workers, props=CHECKS):
    tasks = [(prop, seed, index) for prop in props for index in _indices(prop, count)]
    results, _ = pool.run_parallel("pmsim.selftest", "_task", tasks, workers=workers)
    table = {}
    for args, outcome in results:
        if "ok" not in outcome:
            raise pool.HarnessError("selftest scenario %s failed: %s" % (args, outcome.get("harness")))
        table["%s/%d" % (args[0], args[2])] = digest(outcome["ok"])
    return table


def _indices(prop, count):
    # C13's first indices are the exhaustive chains; take histories as well
    if prop == "C13":
        from .checks import c13

        base = c13.HISTORIES["quick"]
        last = base + c13.chain_count("quick") - 1
        # histories, dirty chains (served first after the histories) and plain chains
        return list(range(0, count // 2)) + list(range(base, base + count // 4 + 1)) + list(range(last - count // 4, last + 1))
    return list(range(count))


def main(size, seed):
    started = time.time()
    count = 10 if size == "short" else 70
    if os.environ.get("PMSIM_SELFTEST_CHILD"):
        table = collect(seed, count, int(os.environ["PMSIM_SELFTEST_CHILD"]))
        sys.stdout.write(json.dumps(table))
        return 0
    try:
        first = collect(seed, count, 2 if size == "short" else 3)
        second = collect(seed, count, 16)
        env = dict(os.environ)
        env["PMSIM_SELFTEST_CHILD"] = "7"
        env["PMSIM_DRIVER_HASHSEED"] = "12345"
        env["VERIF_SEED"] = str(seed)
        child = subprocess.run([sys.executable, os.path.join(pool.VERIF, "pmsim_cli.py"), "selftest", "--size", size], env=env, capture_output=True, timeout=3000)
        if child.returncode != 0:
            print("HARNESS-ERROR selftest child failed: %s" % child.stderr.decode()[-800:])
            return 2
        third = json.loads(child.stdout.decode())
    except pool.HarnessError as this_error:
        print("HARNESS-ERROR %s" % this_error)
        return 2
    bad = sorted(key for key in first if not (first[key] == second.get(key) == third.get(key)))
    print("selftest: %d run seeds x 3 executions (2, 16 and 7 workers; fresh interpreter with PYTHONHASHSEED=12345), %d divergent, %.1fs" % (len(first), len(bad), time.time() - started))
    if bad or len(first) != len(second) or len(first) != len(third):
        print("HARNESS-ERROR determinism self-test failed for: %s" % ", ".join(bad[:20]))
        return 2
    return 0
