"""Document pool: repository test resources (copied once, committed) plus the
hand-written carriers.  `tags.json` holds generator hints computed by solo
scan/fix runs at build time; hints are never used as expectations."""

import base64
import hashlib
import json
import os

from . import carriers

HERE = os.path.dirname(os.path.abspath(__file__))
VERIF = os.path.dirname(HERE)
POOL_DIR = os.path.join(VERIF, "corpus", "pool")
TAGS = os.path.join(VERIF, "corpus", "tags.json")


def b64(data):
    return base64.b64encode(data).decode("ascii")


def unb64(text):
    return base64.b64decode(text.encode("ascii"))


def copy_repo_resources(repo="/repo"):
    """One-off: copy test/resources/**/*.md into corpus/pool (flattened names)."""
    os.makedirs(POOL_DIR, exist_ok=True)
    top = os.path.join(repo, "test", "resources")
    count = 0
    for root, dirs, files in os.walk(top):
        dirs.sort()
        for name in sorted(files):
            if not name.endswith(".md"):
                continue
            rel = os.path.relpath(os.path.join(root, name), top)
            flat = "r_" + rel.replace(os.sep, "__")
            with open(os.path.join(root, name), "rb") as src:
                data = src.read()
            with open(os.path.join(POOL_DIR, flat), "wb") as dst:
                dst.write(data)
            count += 1
    return count


class Doc:
    __slots__ = ("name", "data", "group", "tags")

    def __init__(self, name, data, group, tags):
        self.name, self.data, self.group, self.tags = name, data, group, tags

    @property
    def digest(self):
        return hashlib.sha1(self.data).hexdigest()[:12]


_CACHE = {}


def load():
    """-> dict name -> Doc (pool + carriers), poison dict, natural-fail dict."""
    if "docs" in _CACHE:
        return _CACHE["docs"]
    tags = {}
    if os.path.exists(TAGS):
        with open(TAGS) as handle:
            tags = json.load(handle)
    docs = {}
    for name in sorted(os.listdir(POOL_DIR)):
        with open(os.path.join(POOL_DIR, name), "rb") as handle:
            data = handle.read()
        key = name[:-3]
        group = "rule:" + key.split("__")[1] if key.startswith("r_rules__") else "repo"
        docs[key] = Doc(key, data, group, tags.get(key, {}))
    for name, (data, group) in carriers.CARRIERS.items():
        docs[name] = Doc(name, data, group, tags.get(name, {}))
    _CACHE["docs"] = docs
    return docs


def usable(docs=None, need=None, avoid=("hang", "parse_error", "undecodable", "slow")):
    """Names of documents whose hints contain all of `need` and none of `avoid`."""
    docs = docs or load()
    names = []
    for name in sorted(docs):
        tags = docs[name].tags
        if any(tags.get(flag) for flag in avoid):
            continue
        if need and not all(tags.get(flag) for flag in need):
            continue
        names.append(name)
    return names


def vet_one(name):
    """Solo scan + solo fix of one document in pristine processes -> hints."""
    from .pool import get_exec

    docs = load()
    doc = docs[name]
    client = get_exec()
    hints = {}
    try:
        doc.data.decode("utf-8")
    except UnicodeDecodeError:
        hints["undecodable"] = True
    request = {
        "files": {"doc.md": {"b64": b64(doc.data)}},
        "world": {"tmpkey": 1},
        "cpu": 10,
        "ops": [{"kind": "cli", "argv": ["scan", "doc.md"]}],
    }
    reply = client.run(request)
    if reply["status"] != "done":
        hints["hang"] = True
        return name, hints
    op = reply["result"]["ops"][0]
    if op["exc"] or "BadTokenizationError" in op["stderr"] or "Unexpected Error" in op["stderr"]:
        hints["parse_error"] = True
    if "BadPluginError" in op["stderr"]:
        hints["plugin_error"] = True
    if "INLINE" in op["stderr"]:
        hints["pragma_error"] = True
    if op["exit"] == 0:
        hints["clean"] = True
    elif op["exit"] == 1 and op["stdout"].strip():
        hints["failing"] = True
        rules = sorted({line.split(": ")[1] for line in op["stdout"].splitlines() if line.count(": ") >= 2})
        hints["rules"] = rules
    request["ops"] = [{"kind": "cli", "argv": ["fix", "doc.md"]}]
    reply = client.run(request)
    if reply["status"] != "done":
        hints["hang"] = True
        return name, hints
    op = reply["result"]["ops"][0]
    after = reply["work"].get("doc.md")
    if op["exit"] == 3 and after is not None and unb64(after[0]) != doc.data:
        hints["fixable"] = True
        if not unb64(after[0]) and doc.data:
            hints["fix_empties"] = True
    if op["exit"] not in (0, 3):
        hints["fix_error"] = True
    hints["lines"] = doc.data.count(b"\n") + 1
    return name, hints


def build_tags(workers=16):
    from .pool import run_parallel

    docs = load()
    results, _ = run_parallel("pmsim.corpus", "vet_one", [(name,) for name in sorted(docs)], workers=workers)
    tags = {}
    for _args, outcome in results:
        if "ok" not in outcome:
            raise SystemExit("vetting failed: %s" % (outcome,))
        name, hints = outcome["ok"]
        tags[name] = hints
    with open(TAGS, "w") as handle:
        json.dump({k: tags[k] for k in sorted(tags)}, handle, indent=0, sort_keys=True)
    _CACHE.clear()
    return tags
