"""Template worker and per-execution child runtime of pmsim.

Run as a script:  /venv/bin/python /verif/pmsim/rt.py
(environment prepared by pmsim.pool: PYTHONHASHSEED = hash-seed class, locale
class, PYTHONPATH=/repo, PYTHONDONTWRITEBYTECODE=1).

The template imports pymarkdown ONCE, installs a (disarmed) audit hook and then
serves requests, one JSON document per line on its protocol pipe.  For every
request it forks; the child is one *execution* = one simulated process life:

  * private run root <scratch>/r<n>/{work,tmp}; cwd = work; tempdir = tmp
  * seams armed: audit hook (observe / raise OSError / kill), permuted directory
    listings, seeded temp names, fake stdin, optional chunked copyfile,
    wrapped rule callbacks, wrapped parser entry and provider reads
  * runs the operation list in-process with the real pymarkdown code
  * writes its result document to <root>/result.json (also right before a
    simulated kill = os._exit(137), the stand-in for SIGKILL)

The parent snapshots the run root, deletes it and replies.

Nothing here draws from a PRNG except through keys contained in the request,
reads no clock for any decision, and logging never perturbs the execution.
"""

import base64
import builtins
import errno
import hashlib
import io
import json
import os
import random
import resource
import signal
import sys
import tempfile
import traceback

PLUGDIR = os.path.join(os.path.dirname(os.path.dirname(os.path.abspath(__file__))), "plugins")


class _State:
    armed = False
    busy = False
    sym_back = {}


S = _State()

# --------------------------------------------------------------------------
# helpers


def _b64(data):
    return base64.b64encode(data).decode("ascii")


def _unb64(text):
    return base64.b64decode(text.encode("ascii"))


def _fs_str(path):
    if isinstance(path, bytes):
        return os.fsdecode(path)
    if isinstance(path, str):
        return path
    if hasattr(path, "__fspath__"):
        return _fs_str(os.fspath(path))
    return None


def _classify(path):
    """-> (pclass, shown path).  Never performs an audited operation."""
    text = _fs_str(path)
    if text is None:
        return None, None
    full = os.path.normpath(os.path.join(S.cwd_at_event(), text))
    if full == S.work or full.startswith(S.work + "/"):
        rel = full[len(S.work) + 1 :]
        if rel in S.user_files:
            return "target", "<W>/" + rel
        if rel in S.user_dirs or rel == "":
            return "work-dir", "<W>/" + rel
        return "work-new", "<W>/" + rel
    if full == S.tmp or full.startswith(S.tmp + "/"):
        return "tmp", "<T>/" + full[len(S.tmp) + 1 :]
    if full.startswith(S.root + "/") or full == S.root:
        return "root", "<R>/" + full[len(S.root) + 1 :]
    return "outside", full


def _real_path(shown):
    if shown.startswith("<W>/"):
        return os.path.join(S.work, shown[4:])
    if shown.startswith("<T>/"):
        return os.path.join(S.tmp, shown[4:])
    if shown.startswith("<R>/"):
        return os.path.join(S.root, shown[4:])
    return shown


def _dump_result(status):
    """Write the result document with raw os calls (hook is busy/disarmed)."""
    S.busy = True
    doc = {
        "status": status,
        "ops": S.op_results,
        "log": S.log,
        "sites": S.sites,
        "fired": S.fired,
        "steps": S.steps,
        "cur_op": S.cur_op,
        "harness": S.harness_notes,
        "impl": getattr(S, "impl", {}),
        "xdev_hits": getattr(S, "xdev_hits", 0),
    }
    data = json.dumps(doc).encode("utf-8")
    fd = S.os_open(os.path.join(S.root, "result.json"), os.O_WRONLY | os.O_CREAT | os.O_TRUNC, 0o644)
    try:
        view = memoryview(data)
        while view:
            n = os.write(fd, view)
            view = view[n:]
    finally:
        os.close(fd)


def _kill():
    # stand-in for SIGKILL: no finally block runs, no Python buffer is flushed
    _dump_result("killed")
    os._exit(137)


def _hit(site):
    """Register that the execution reached a fault site; return a plan entry to enact."""
    key = (S.cur_op, site, S.curfile)
    count = S.counts.get(key, 0) + 1
    S.counts[key] = count
    S.steps += 1
    if S.record_sites:
        S.sites.append([site, S.curfile, count, S.cur_op])
    for index, fault in enumerate(S.plan):
        if fault["site"] != site or fault.get("file") != S.curfile or fault.get("op", S.cur_op) != S.cur_op:
            continue
        if fault.get("sticky"):
            # a persistent condition (immutable file, full disk): every occurrence from
            # the planned one on fails, so a retry does not get through either
            if count >= fault["ord"]:
                if index not in S.fired:
                    S.fired.append(index)
                return fault
        elif index not in S.fired and fault["ord"] == count:
            S.fired.append(index)
            return fault
    return None


# --------------------------------------------------------------------------
# audit hook: the file-system seam

_O_ACC = os.O_WRONLY | os.O_RDWR


def _open_kind(mode, flags):
    if isinstance(flags, int):
        if flags & _O_ACC:
            if flags & os.O_APPEND:
                return "open-a"
            return "open-w"
        if flags & (os.O_CREAT | os.O_TRUNC):
            return "open-w"
        return "open-r"
    if isinstance(mode, str):
        if "a" in mode:
            return "open-a"
        if any(c in mode for c in "wx+"):
            return "open-w"
    return "open-r"


_MUTATING = {
    "write",
    "open-w",
    "open-a",
    "remove",
    "rename",
    "mkdir",
    "rmdir",
    "copyfile",
    "chmod",
    "truncate",
    "link",
    "symlink",
    "mkstemp",
    "mkdtemp",
    "utime",
    "chown",
    "move",
    "rmtree",
    "copymode",
    "copystat",
    "copytree",
}

_EVENTS = {
    "os.remove": ("remove", 0, None),
    "os.rename": ("rename", 0, 1),
    "os.mkdir": ("mkdir", 0, None),
    "os.rmdir": ("rmdir", 0, None),
    "os.listdir": ("listdir", 0, None),
    "os.scandir": ("scandir", 0, None),
    "os.walk": ("walk", 0, None),
    "glob.glob": ("glob", 0, None),
    "shutil.copyfile": ("copyfile", 1, 0),
    "shutil.copymode": ("copymode", 1, 0),
    "shutil.copystat": ("copystat", 1, 0),
    "shutil.copytree": ("copytree", 1, 0),
    "shutil.move": ("move", 1, 0),
    "shutil.rmtree": ("rmtree", 0, None),
    "os.chmod": ("chmod", 0, None),
    "os.truncate": ("truncate", 0, None),
    "os.link": ("link", 1, 0),
    "os.symlink": ("symlink", 1, 0),
    "tempfile.mkstemp": ("mkstemp", 0, None),
    "tempfile.mkdtemp": ("mkdtemp", 0, None),
    "os.utime": ("utime", 0, None),
    "os.chown": ("chown", 0, None),
}


def _enact_fs(fault, op, pclass, shown):
    act = fault["act"]
    if act == "kill":
        _kill()
    if act == "kill_trunc":
        # "killed after the target was opened": the open that is about to
        # happen truncates; perform the truncation, then die.
        real = _real_path(shown)
        if op == "open-w" and os.path.isfile(real):
            os.truncate(real, 0)
        _kill()
    if act.startswith("kill_partial:"):
        fraction = float(act.split(":", 1)[1])
        real = _real_path(shown)
        if op == "open-w" and os.path.isfile(real):
            source = S.last_copy.get(real)
            data = b""
            if source is not None and os.path.isfile(source):
                fd = S.os_open(source, os.O_RDONLY)
                try:
                    chunks = []
                    while True:
                        part = os.read(fd, 1 << 16)
                        if not part:
                            break
                        chunks.append(part)
                    data = b"".join(chunks)
                finally:
                    os.close(fd)
            keep = int(len(data) * fraction)
            fd = S.os_open(real, os.O_WRONLY | os.O_TRUNC)
            try:
                os.write(fd, data[:keep])
            finally:
                os.close(fd)
        _kill()
    if act == "interrupt":
        # Ctrl-C delivered at this instant
        raise KeyboardInterrupt()
    if act.startswith("oserror:"):
        code = getattr(errno, act.split(":", 1)[1])
        raise OSError(code, os.strerror(code), _real_path(shown))
    S.harness_notes.append("unknown fs action " + act)


def _audit(event, args):
    if not S.armed or S.busy:
        return
    if event == "open":
        path, mode, flags = args[0], args[1], args[2]
        if isinstance(path, int):
            return
        op = _open_kind(mode, flags)
        second = None
    elif event == "pmsim.chunk":
        S.busy = True
        try:
            pclass, shown = _classify(args[0])
            S.log.append(["fs", "chunk", pclass, shown, args[1]])
            fault = _hit("copy/chunk")
            if fault is not None:
                _enact_fs(fault, "chunk", pclass, shown)
        finally:
            S.busy = False
        return
    else:
        spec = _EVENTS.get(event)
        if spec is None:
            return
        op, first, second_index = spec
        path = args[first] if len(args) > first else None
        second = args[second_index] if second_index is not None and len(args) > second_index else None
        if isinstance(path, int):
            return
    S.busy = True
    try:
        pclass, shown = _classify(path)
        if pclass is None:
            return
        if pclass == "outside" and op not in _MUTATING:
            S.outside_reads += 1
            return
        extra = None
        if second is not None:
            extra = _classify(second)[1]
        if op == "copyfile" and extra is not None:
            S.last_copy[_real_path(shown)] = _real_path(extra)
        if op == "open-r" and pclass == "target":
            # (opt-in) a document named through a symbolic link stays "the current file"
            # while its real file is opened for the write-back
            S.curfile = S.sym_back.get(shown[4:], shown[4:])
        entry = ["fs", op, pclass, shown, extra]
        if op == "open-r" and S.record_reads and pclass in ("target", "tmp", "work-new"):
            real = _real_path(shown)
            try:
                fd = S.os_open(real, os.O_RDONLY)
                try:
                    chunks = []
                    while True:
                        part = os.read(fd, 1 << 16)
                        if not part:
                            break
                        chunks.append(part)
                finally:
                    os.close(fd)
                entry.append(_b64(b"".join(chunks)))
            except OSError:
                entry.append(None)
        S.log.append(entry)
        if pclass in ("outside",):
            return
        fault = _hit("fs/%s/%s" % (op, pclass))
        if fault is not None:
            # what the refused / interrupted operation was aimed at (a directory that is
            # opened or listed is being walked - by a clean-up, typically)
            try:
                is_directory = os.path.isdir(_real_path(shown))
            except (OSError, ValueError, TypeError):
                is_directory = False
            S.log.append(["fault", op, pclass, shown, is_directory])
            _enact_fs(fault, op, pclass, shown)
    finally:
        S.busy = False


# --------------------------------------------------------------------------
# world: directory order, temp names, copy emulation, stdin


def _perm(path, names):
    names = sorted(names)
    if S.dirkey is None:
        return names
    text = _fs_str(path) if not isinstance(path, int) else str(path)
    shown = _classify(text)[1] if text is not None else "?"
    rng = random.Random("%s|%s" % (S.dirkey, shown))
    rng.shuffle(names)
    return names


class _ScanDir:
    def __init__(self, path, real):
        with real as it:
            entries = list(it)
        by_name = {}
        for entry in entries:
            by_name[entry.name] = entry
        # names may be bytes
        order = _perm(path, list(by_name.keys()))
        self._entries = [by_name[name] for name in order]
        self._pos = 0

    def __iter__(self):
        return self

    def __next__(self):
        if self._pos >= len(self._entries):
            raise StopIteration
        entry = self._entries[self._pos]
        self._pos += 1
        return entry

    def __enter__(self):
        return self

    def __exit__(self, *exc):
        self.close()
        return False

    def close(self):
        self._pos = len(self._entries)


class _NameSeq:
    """Seeded replacement for tempfile._RandomNameSequence."""

    characters = "abcdefghijklmnopqrstuvwxyz0123456789_"

    def __init__(self, key):
        self._rng = random.Random("tmp|%s" % key)

    def __iter__(self):
        return self

    def __next__(self):
        return "".join(self._rng.choices(self.characters, k=8))


class _ChunkedRaw(io.RawIOBase):
    """stdin as a stream that delivers seeded short reads."""

    def __init__(self, data, chunks):
        super().__init__()
        self._data = data
        self._pos = 0
        self._chunks = list(chunks or [])
        self._index = 0

    def readable(self):
        return True

    def readinto(self, buffer):
        if self._pos >= len(self._data):
            return 0
        limit = len(buffer)
        if self._chunks:
            limit = min(limit, max(1, self._chunks[self._index % len(self._chunks)]))
            self._index += 1
        part = self._data[self._pos : self._pos + limit]
        buffer[: len(part)] = part
        self._pos += len(part)
        S.stdin_reads += 1
        return len(part)


def _make_stdin(op):
    data = _unb64(op["stdin_b64"]) if op.get("stdin_b64") is not None else b""
    raw = _ChunkedRaw(data, op.get("stdin_chunks"))
    # encoding=None -> locale encoding of this template class, as a real
    # interpreter would choose for its standard input
    return io.TextIOWrapper(io.BufferedReader(raw, buffer_size=max(1, op.get("stdin_buf", 8192))), encoding=op.get("stdin_encoding"))


class _WriteProxy:
    """File object opened for writing under the run root: write / flush / close
    are fault sites (disk full, I/O error, process death between two writes).
    Everything else is delegated to the real file object."""

    def __init__(self, handle, pclass, shown):
        self.__dict__["_h"] = handle
        self.__dict__["_pclass"] = pclass
        self.__dict__["_shown"] = shown

    def _site(self, what):
        if S.armed and not S.busy:
            S.busy = True
            try:
                if what == "write":
                    # one log entry per (operation, file): a write through a handle that was
                    # opened earlier (no open event) is still a modification by THIS operation
                    key = (S.cur_op, self._shown)
                    if key not in S.write_logged:
                        S.write_logged.add(key)
                        S.log.append(["fs", "write", self._pclass, self._shown, None])
                fault = _hit("fs/%s/%s" % (what, self._pclass))
                if fault is not None:
                    _enact_fs(fault, what, self._pclass, self._shown)
            finally:
                S.busy = False

    def write(self, data):
        self._site("write")
        return self._h.write(data)

    def writelines(self, lines):
        self._site("write")
        return self._h.writelines(lines)

    def flush(self):
        self._site("flush")
        return self._h.flush()

    def close(self):
        if not self._h.closed:
            try:
                self._site("close")
            except OSError:
                # the data could not be written out, the descriptor is released anyway
                try:
                    self._h.close()
                except OSError:
                    pass
                raise
        return self._h.close()

    def __enter__(self):
        self._h.__enter__()
        return self

    def __exit__(self, *exc):
        self.close()
        return False

    def __iter__(self):
        return iter(self._h)

    def __next__(self):
        return next(self._h)

    def __getattr__(self, name):
        return getattr(self._h, name)

    def __setattr__(self, name, value):
        setattr(self._h, name, value)


def _install_write_seam():
    import io

    real_open = builtins.open

    def open_with_write_sites(file, mode="r", *args, **kwargs):
        handle = real_open(file, mode, *args, **kwargs)
        if S.armed and not S.busy and isinstance(mode, str) and any(c in mode for c in "wax+") and isinstance(file, (str, bytes, os.PathLike)):
            S.busy = True
            try:
                pclass, shown = _classify(file)
            finally:
                S.busy = False
            if pclass in ("target", "work-new", "tmp"):
                return _WriteProxy(handle, pclass, shown)
        return handle

    builtins.open = open_with_write_sites
    io.open = open_with_write_sites


def _install_world(world):
    import glob as _glob  # noqa: F401  (make sure it is imported before patching os)
    import shutil

    S.dirkey = world.get("dirkey")
    if world.get("cold"):
        for name in getattr(S, "warm_modules", []):
            sys.modules.pop(name, None)
        if getattr(S, "warm_dir", None) in sys.path:
            sys.path.remove(S.warm_dir)
    real_listdir = os.listdir
    real_scandir = os.scandir

    def listdir(path="."):
        return _perm(path, real_listdir(path))

    def scandir(path="."):
        return _ScanDir(path, real_scandir(path))

    os.listdir = listdir
    os.scandir = scandir

    tempfile._name_sequence = _NameSeq(world.get("tmpkey", 0))
    tempfile.tempdir = S.tmp
    os.environ["TMPDIR"] = S.tmp

    if world.get("xdev"):
        # the temp directory and the documents live on different file systems
        # (tmpfs /tmp is the common deployment): renames and hard links across
        # the boundary fail with EXDEV, exactly as the kernel reports it
        real_rename, real_replace, real_link = os.rename, os.replace, os.link

        def _device(path):
            pclass, _shown = _classify(path)
            return "tmp" if pclass == "tmp" else "work" if pclass in ("target", "work-new", "work-dir") else "other"

        def _guard(real):
            def guarded(src, dst, *args, **kwargs):
                if isinstance(src, (str, bytes, os.PathLike)) and isinstance(dst, (str, bytes, os.PathLike)) and _device(src) != _device(dst):
                    S.xdev_hits += 1
                    raise OSError(errno.EXDEV, os.strerror(errno.EXDEV), _fs_str(src), None, _fs_str(dst))
                return real(src, dst, *args, **kwargs)

            return guarded

        os.rename, os.replace, os.link = _guard(real_rename), _guard(real_replace), _guard(real_link)

    chunk = world.get("copy_chunk")
    if chunk:

        def copyfile(src, dst, *, follow_symlinks=True):
            sys.audit("shutil.copyfile", src, dst)
            with open(src, "rb") as fsrc:
                with open(dst, "wb", buffering=0) as fdst:
                    while True:
                        block = fsrc.read(chunk)
                        if not block:
                            break
                        fdst.write(block)
                        sys.audit("pmsim.chunk", dst, len(block))
            return dst

        shutil.copyfile = copyfile


# --------------------------------------------------------------------------
# pymarkdown seams: rule callbacks, parser entry, provider reads

_ACTIONS = ("starting_new_file", "next_token", "next_line", "completed_file")
_EXC = {
    "RuntimeError": RuntimeError,
    "IndexError": IndexError,
    "AssertionError": AssertionError,
    "KeyError": KeyError,
    "ValueError": ValueError,
    "TypeError": TypeError,
}


class InjectedFault(Exception):
    pass


def _make_exc(fault):
    cls = _EXC.get(fault.get("exc", "RuntimeError"), RuntimeError)
    return cls("pmsim injected fault")


def _payload(action, args):
    try:
        if action == "next_token":
            context, token = args[0], args[1]
            return [hashlib.sha1(str(token).encode("utf-8", "replace")).hexdigest()[:12], bool(context.in_fix_mode), context.line_number]
        if action == "next_line":
            context, line = args[0], args[1]
            return [context.line_number, line, bool(context.in_fix_mode)]
        if action == "completed_file":
            context = args[0]
            return [context.line_number, bool(context.in_fix_mode)]
    except Exception as this_exception:  # pragma: no cover
        return ["payload-error", repr(this_exception)]
    return []


def _wrap_instance(plugin_id, instance):
    S.impl[plugin_id] = [action for action in _ACTIONS if action in type(instance).__dict__]
    for action in _ACTIONS:
        if action not in type(instance).__dict__:
            continue
        if getattr(getattr(instance, action), "_pmsim", False):
            continue
        original = getattr(instance, action)
        site = "cb/%s/%s" % (plugin_id, action)
        recorded = plugin_id in S.record_cb

        def wrapper(*args, _o=original, _site=site, _a=action, _r=recorded, _p=plugin_id, **kwargs):
            if S.armed:
                if _r:
                    S.log.append(["cb", _p, _a, _payload(_a, args)])
                fault = _hit(_site)
                if fault is not None:
                    if fault["act"] == "raise":
                        raise _make_exc(fault)
                    if fault["act"] == "raise_after":
                        _o(*args, **kwargs)
                        raise _make_exc(fault)
                    if fault["act"] == "kill":
                        _kill()
                    if fault["act"] == "interrupt":
                        raise KeyboardInterrupt()
            return _o(*args, **kwargs)

        wrapper._pmsim = True
        setattr(instance, action, wrapper)


def _install_pymarkdown_seams():
    from pymarkdown.general.bad_tokenization_error import BadTokenizationError
    from pymarkdown.general.source_providers import FileSourceProvider
    from pymarkdown.general.tokenized_markdown import TokenizedMarkdown
    from pymarkdown.plugin_manager.plugin_manager import PluginManager

    missing = []
    if not hasattr(PluginManager, "apply_configuration") or not hasattr(PluginManager, "enabled_plugins"):
        missing.append("PluginManager.apply_configuration/enabled_plugins")
    else:
        real_apply = PluginManager.apply_configuration

        def apply_configuration(self, *args, **kwargs):
            result = real_apply(self, *args, **kwargs)
            try:
                for found in self.enabled_plugins:
                    _wrap_instance(found.plugin_id, found.plugin_instance)
                S.plugins_seen = sorted(found.plugin_id for found in self.enabled_plugins)
            except Exception as this_exception:  # pragma: no cover
                S.harness_notes.append("cb seam failed: %r" % (this_exception,))
            return result

        PluginManager.apply_configuration = apply_configuration

    if not hasattr(TokenizedMarkdown, "transform_from_provider"):
        missing.append("TokenizedMarkdown.transform_from_provider")
    else:
        real_transform = TokenizedMarkdown.transform_from_provider

        def transform_from_provider(self, *args, **kwargs):
            if not S.armed:
                return real_transform(self, *args, **kwargs)
            fault = _hit("parse")
            if fault is not None and fault["act"] == "badtok":
                raise BadTokenizationError("pmsim injected parser failure")
            if fault is not None and fault["act"] == "kill":
                _kill()
            # what the parser itself reads (whatever kind of provider it is handed, file
            # or in-memory): the text this parse is a parse OF
            provider = args[0] if args else kwargs.get("source_provider")
            consumed, hooked = [], False
            if S.record_cb and provider is not None and callable(getattr(provider, "get_next_line", None)):
                provider_next = provider.get_next_line

                def recording_next():
                    line = provider_next()
                    if line is not None:
                        consumed.append(line)
                    return line

                try:
                    provider.get_next_line = recording_next
                    hooked = True
                except Exception:  # pragma: no cover
                    hooked = False
            S.in_parse += 1
            try:
                tokens = real_transform(self, *args, **kwargs)
            finally:
                S.in_parse -= 1
                if hooked:
                    try:
                        del provider.get_next_line
                    except Exception:  # pragma: no cover
                        pass
            if S.record_cb:
                digests = [hashlib.sha1(str(t).encode("utf-8", "replace")).hexdigest()[:12] for t in tokens]
                last_pragma = bool(tokens) and bool(getattr(tokens[-1], "is_pragma", False))
                parsed_text = "\n".join(consumed) if hooked and sum(len(c) for c in consumed) < 400000 else None
                S.log.append(["parse", digests, last_pragma, parsed_text])
            return tokens

        TokenizedMarkdown.transform_from_provider = transform_from_provider

    if not hasattr(FileSourceProvider, "get_next_line"):
        missing.append("FileSourceProvider.get_next_line")
    else:
        real_next = FileSourceProvider.get_next_line

        def get_next_line(self):
            if S.armed and S.in_parse:
                fault = _hit("prov")
                if fault is not None:
                    if fault["act"] == "kill":
                        _kill()
                    raise _make_exc(fault)
            return real_next(self)

        FileSourceProvider.get_next_line = get_next_line
    for name in missing:
        S.harness_notes.append("seam missing: " + name)


# --------------------------------------------------------------------------
# operations


def _subst(value):
    if isinstance(value, str):
        return value.replace("<W>", S.work).replace("<T>", S.tmp).replace("<P>", PLUGDIR).replace("<R>", S.root)
    if isinstance(value, list):
        return [_subst(v) for v in value]
    if isinstance(value, dict):
        return {k: _subst(v) for k, v in value.items()}
    return value


def _api_result(value):
    name = type(value).__name__
    if name == "PyMarkdownScanPathResult":
        return {
            "type": "scan",
            "scan_failures": [
                [f.scan_file, f.line_number, f.column_number, f.rule_id, f.rule_name, f.rule_description, f.extra_error_information]
                for f in value.scan_failures
            ],
            "pragma_errors": [[p.file_path, p.line_number, p.pragma_error] for p in value.pragma_errors],
        }
    if name == "PyMarkdownFixResult":
        return {"type": "fix", "files_fixed": list(value.files_fixed)}
    if name == "PyMarkdownFixStringResult":
        return {"type": "fix_string", "was_fixed": value.was_fixed, "fixed_file": value.fixed_file}
    if name == "PyMarkdownListPathResult":
        return {"type": "list", "matching_files": list(value.matching_files)}
    if isinstance(value, (str, int, float, bool)) or value is None:
        return {"type": "value", "value": value}
    return {"type": "other", "repr": repr(value)}


def _run_op(op):
    out, err = io.StringIO(), io.StringIO()
    saved = sys.stdout, sys.stderr, sys.stdin
    sys.stdout, sys.stderr = out, err
    sys.stdin = _make_stdin(op)
    builtins.__pmsim_probe__ = op.get("probes") or {}
    builtins.__pmsim_calls__ = []
    result = {"exit": None, "exc": None}
    S.curfile = "<stdin>" if op.get("stdin_b64") is not None else None
    try:
        if op["kind"] == "cli":
            from pymarkdown.main import PyMarkdownLint

            try:
                PyMarkdownLint().main(_subst(op["argv"]))
                result["exit"] = "returned"
            except SystemExit as this_exit:
                result["exit"] = this_exit.code
        elif op["kind"] == "api":
            from pymarkdown import api as api_module

            if op.get("new", True) or S.api is None:
                S.api = api_module.PyMarkdownApi(**(op.get("ctor") or {}))
            try:
                for step in op.get("build") or []:
                    getattr(S.api, step[0])(*_subst(step[1:]))
                call = op["call"]
                value = getattr(S.api, call[0])(*_subst(call[1]), **_subst(call[2] if len(call) > 2 else {}))
                result["api"] = _api_result(value)
            except api_module.PyMarkdownApiException as this_exception:
                result["api"] = {
                    "type": "exception",
                    "class": type(this_exception).__name__,
                    "reason": this_exception.reason,
                }
        else:
            S.harness_notes.append("unknown op kind %r" % (op["kind"],))
    except SystemExit as this_exit:
        result["exit"] = this_exit.code
    except BaseException as this_exception:  # the process would die with a traceback
        result["exc"] = "%s: %s" % (type(this_exception).__name__, this_exception)
        result["tb"] = traceback.format_exc()[-2000:]
    finally:
        sys.stdout, sys.stderr, sys.stdin = saved
    counts = {}
    for pid, _action in builtins.__pmsim_calls__:
        counts[pid] = counts.get(pid, 0) + 1
    result["probe_calls"] = counts
    result["stdout"] = out.getvalue()
    result["stderr"] = err.getvalue()
    return result


def _write_tree(request):
    for rel in request.get("dirs") or []:
        os.makedirs(os.path.join(S.work, rel), exist_ok=True)
    for rel, spec in (request.get("files") or {}).items():
        full = os.path.join(S.work, rel)
        os.makedirs(os.path.dirname(full), exist_ok=True)
        with open(full, "wb") as handle:
            handle.write(_unb64(spec["b64"]))
        if spec.get("mode") is not None:
            os.chmod(full, spec["mode"])
    for rel, source in (request.get("links") or {}).items():
        # a second name (hard link) for a user file
        full = os.path.join(S.work, rel)
        os.makedirs(os.path.dirname(full), exist_ok=True)
        os.link(os.path.join(S.work, source), full)
    for rel, target in (request.get("symlinks") or {}).items():
        # a symbolic link inside the tree; the target is given relative to the work
        # directory (it may not exist: dangling link)
        full = os.path.join(S.work, rel)
        os.makedirs(os.path.dirname(full), exist_ok=True)
        os.symlink(os.path.relpath(os.path.join(S.work, target), os.path.dirname(full)), full)
    for rel, spec in (request.get("tmpfiles") or {}).items():
        full = os.path.join(S.tmp, rel)
        with open(full, "wb") as handle:
            handle.write(_unb64(spec["b64"]))


def _child(request, root):
    S.root = root
    S.work = os.path.join(root, "work")
    S.tmp = os.path.join(root, "tmp")
    S.os_open = os.open
    S.cwd_at_event = os.getcwd
    os.makedirs(S.work)
    os.makedirs(S.tmp)
    S.user_files = set((request.get("files") or {}).keys()) | set((request.get("links") or {}).keys()) | set((request.get("symlinks") or {}).keys())
    S.user_dirs = set(request.get("dirs") or [])
    S.sym_back = {target: rel for rel, target in (request.get("symlinks") or {}).items()} if request.get("curfile_via_symlink") else {}
    for rel in list(S.user_files):
        parts = rel.split("/")[:-1]
        for index in range(1, len(parts) + 1):
            S.user_dirs.add("/".join(parts[:index]))
    S.plan = request.get("plan") or []
    S.record_cb = set(request.get("record_cb") or [])
    S.record_sites = bool(request.get("record_sites"))
    S.record_reads = bool(request.get("record_reads"))
    S.op_results, S.log, S.sites, S.fired, S.harness_notes = [], [], [], [], []
    S.counts, S.steps, S.cur_op, S.curfile = {}, 0, 0, None
    S.last_copy, S.outside_reads, S.stdin_reads, S.in_parse = {}, 0, 0, 0
    S.api, S.plugins_seen, S.impl = None, [], {}
    S.xdev_hits = 0
    S.write_logged = set()
    _write_tree(request)
    os.chdir(S.work)
    _install_world(request.get("world") or {})
    _install_write_seam()
    _install_pymarkdown_seams()
    cpu = int(request.get("cpu", 20))
    resource.setrlimit(resource.RLIMIT_CPU, (cpu, cpu + 2))
    signal.alarm(cpu * 6 + 60)
    S.armed = True
    for index, op in enumerate(request["ops"]):
        S.cur_op = index
        S.log.append(["op", index])
        if S.record_reads:
            # what every user document holds when this operation starts (read through
            # symbolic links), independent of whether and when the code opens it
            S.busy = True
            try:
                snapshot = {}
                for rel in sorted(S.user_files):
                    try:
                        fd = S.os_open(os.path.join(S.work, rel), os.O_RDONLY)
                        try:
                            chunks = []
                            while True:
                                part = os.read(fd, 1 << 16)
                                if not part:
                                    break
                                chunks.append(part)
                        finally:
                            os.close(fd)
                        snapshot[rel] = _b64(b"".join(chunks))
                    except OSError:
                        snapshot[rel] = None
                S.log.append(["snap", snapshot])
            finally:
                S.busy = False
        S.op_results.append(_run_op(op))
    S.armed = False
    S.harness_notes.append("plugins=" + ",".join(S.plugins_seen))
    _dump_result("done")
    os._exit(0)


# --------------------------------------------------------------------------
# template (parent) side


def _snapshot(top):
    files, dirs = {}, []
    if not os.path.isdir(top):
        return files, dirs
    stack = [""]
    while stack:
        rel = stack.pop()
        full = os.path.join(top, rel) if rel else top
        for name in sorted(os.listdir(full)):
            sub = rel + "/" + name if rel else name
            path = os.path.join(full, name)
            info = os.lstat(path)
            import stat as _stat

            if _stat.S_ISDIR(info.st_mode):
                dirs.append(sub)
                stack.append(sub)
            elif _stat.S_ISREG(info.st_mode):
                with open(path, "rb") as handle:
                    files[sub] = [_b64(handle.read()), _stat.S_IMODE(info.st_mode)]
            elif _stat.S_ISLNK(info.st_mode):
                try:
                    with open(path, "rb") as handle:
                        files[sub] = [_b64(handle.read()), "symlink"]
                except OSError:
                    files[sub] = [None, "symlink"]
            else:
                files[sub] = [None, info.st_mode]
    return files, sorted(dirs)


def _serve():
    import shutil

    proto_in = os.fdopen(os.dup(0), "rb")
    proto_out = os.fdopen(os.dup(1), "wb")
    devnull = os.open(os.devnull, os.O_RDWR)
    os.dup2(devnull, 0)
    os.dup2(devnull, 1)
    # stderr stays: harness diagnostics

    scratch_base = os.environ.get("PMSIM_SCRATCH") or ("/dev/shm" if os.access("/dev/shm", os.W_OK) else tempfile.gettempdir())
    scratch = tempfile.mkdtemp(prefix="pmsim-%d-" % os.getpid(), dir=scratch_base)

    # import the system under test ONCE; never run it in the template
    import pymarkdown.api  # noqa: F401
    import pymarkdown.main  # noqa: F401

    # warm the rule modules (what every real process does on its first
    # invocation); "cold" worlds undo this in the child
    plugin_dir = os.path.join(os.path.dirname(os.path.realpath(pymarkdown.main.__file__)), "plugins")
    S.warm_dir = os.path.abspath(plugin_dir)
    S.warm_modules = []
    if os.path.isdir(plugin_dir):
        sys.path.insert(0, S.warm_dir)
        for name in sorted(os.listdir(plugin_dir)):
            if name.endswith(".py") and name != "__init__.py":
                try:
                    __import__(name[:-3])
                    S.warm_modules.append(name[:-3])
                except Exception:  # a broken rule module must fail inside the execution, not here
                    sys.modules.pop(name[:-3], None)

    sys.addaudithook(_audit)
    proto_out.write(
        (json.dumps({"ready": True, "pymarkdown": os.path.dirname(pymarkdown.main.__file__), "hashseed": os.environ.get("PYTHONHASHSEED")}) + "\n").encode()
    )
    proto_out.flush()
    counter = 0
    try:
        while True:
            line = proto_in.readline()
            if not line:
                break
            request = json.loads(line)
            if request.get("quit"):
                break
            counter += 1
            root = os.path.join(scratch, "r%d" % counter)
            os.makedirs(root)
            pid = os.fork()
            if pid == 0:
                try:
                    proto_in.close()
                    _child(request, root)
                except BaseException:  # harness failure inside the child
                    try:
                        S.armed = False
                        S.busy = True
                        with open(os.path.join(root, "harness_error.txt"), "w") as handle:
                            handle.write(traceback.format_exc())
                    finally:
                        os._exit(99)
            _, status = os.waitpid(pid, 0)
            reply = {"id": request.get("id")}
            if os.WIFEXITED(status):
                code = os.WEXITSTATUS(status)
                reply["status"] = {0: "done", 137: "killed", 99: "harness_error"}.get(code, "exit:%d" % code)
            else:
                sig = os.WTERMSIG(status)
                reply["status"] = {signal.SIGXCPU: "cpu", signal.SIGKILL: "cpu", signal.SIGALRM: "wall"}.get(sig, "signal:%d" % sig)
            result_path = os.path.join(root, "result.json")
            if os.path.exists(result_path):
                with open(result_path, "rb") as handle:
                    try:
                        # the run root differs per execution: normalise it
                        reply["result"] = json.loads(handle.read().decode("utf-8").replace(root, "<R>"))
                    except ValueError:
                        reply["status"] = "harness_error"
                        reply["harness_error"] = "unreadable result.json"
            herr = os.path.join(root, "harness_error.txt")
            if os.path.exists(herr):
                with open(herr) as handle:
                    reply["harness_error"] = handle.read()
            work_files, work_dirs = _snapshot(os.path.join(root, "work"))
            tmp_files, tmp_dirs = _snapshot(os.path.join(root, "tmp"))
            reply["work"] = work_files
            reply["work_dirs"] = work_dirs
            reply["tmp"] = tmp_files
            reply["tmp_dirs"] = tmp_dirs
            extra = sorted(name for name in os.listdir(root) if name not in ("work", "tmp", "result.json", "harness_error.txt"))
            reply["root_extra"] = extra
            shutil.rmtree(root, ignore_errors=True)
            proto_out.write((json.dumps(reply) + "\n").encode())
            proto_out.flush()
    finally:
        shutil.rmtree(scratch, ignore_errors=True)


if __name__ == "__main__":
    _serve()
