"""Hand-written pool documents: state carriers/consumers, structural edge
documents for the I/O paths, poison documents, probe-marker documents.

Tags here are *hints for the generators* (which document to pair with which),
never expectations: every oracle recomputes its expectation from reference
executions of the current /repo tree.

Each entry: name -> (bytes, group).  Documents of the same group touch the same
piece of cross-line / cross-file state, so (carrier, consumer) pairs are drawn
preferentially inside one group.
"""

LONG = "x" * 70


def _t(text):
    return text.encode("utf-8")


CARRIERS = {
    # --- link reference definitions --------------------------------------
    "lrd_def": (_t("# Links\n\n[foo]: /url \"title\"\n[bar]: /other\n\n[foo] and [bar][]\n"), "lrd"),
    "lrd_use": (_t("# Uses\n\n[foo] and [bar][] and ![foo]\n"), "lrd"),
    "lrd_use2": (_t("[foo]\n\n[bar]: /late\n"), "lrd"),
    "lrd_partial_eof": (_t("# Partial\n\n[foo]:\n"), "lrd"),
    "lrd_partial_eof2": (_t("para\n\n[foo]: /url\n\"unfinished title\n"), "lrd"),
    "lrd_def_empty": (_t("# Empty targets\n\n[foo]: #\n[bar]: <>\n\n[foo] and [bar]\n"), "lrd"),
    "lrd_def_spaces": (_t("# Spaces\n\n[ foo ]: /url\n[bar]: http://example.com/very/long/path\n\ntext\n"), "lrd"),
    "lrd_use_spaces": (_t("# Uses\n\n[ foo ] and [ bar ][] and ![ foo ]\n"), "lrd"),
    "lrd_use_image": (_t("# Uses\n\n![foo] and ![][bar]\n"), "lrd"),
    "lrd_quote_unfinished": (_t("> [foo]:\n> /url \"title\nbar\n"), "lrd"),
    "lrd_list_unfinished": (_t("- [foo]: /url\n  \"title\n- bar\n"), "lrd"),
    "lrd_quote_nested": (_t("> > [foo]:\n> /url\n"), "lrd"),
    "lrd_in_quote": (_t("> [foo]: /quoted\n>\n> [foo]\n"), "lrd"),
    # --- headings -----------------------------------------------------------
    "h_dup_a": (_t("# Alpha\n\n## Same\n\ntext\n"), "heading"),
    "h_dup_b": (_t("# Beta\n\n## Same\n\ntext\n"), "heading"),
    "h_title_one": (_t("# One\n\ntext\n"), "heading"),
    "h_title_two": (_t("# Two\n\ntext\n"), "heading"),
    "h_ends_h1": (_t("# Only\n"), "heading"),
    "h_ends_h2": (_t("# Top\n\n## Second\n"), "heading"),
    "h_starts_h3": (_t("### Third\n\ntext\n"), "heading"),
    "h_skip": (_t("# Top\n\n### Skipped\n"), "heading"),
    "h_setext": (_t("Title\n=====\n\nSub\n---\n\ntext\n"), "heading"),
    "h_setext_indented": (_t("# Title\n\nab\n   ---\ntext\n"), "heading"),
    "h_setext_indented_punct": (_t("# Title\n\nab.\n  ======\n\nab.\n   ---\n"), "heading"),
    "h_atx": (_t("# Title\n\n## Sub\n\ntext\n"), "heading"),
    "h_atx_closed": (_t("# Title #\n\n## Sub ##\n\ntext\n"), "heading"),
    "h_no_blank_after_eof": (_t("text\n\n## Heading"), "heading"),
    "h_starts_text": (_t("plain first line\n\n# Late title\n"), "heading"),
    "h_punct": (_t("# Title.\n\n## What?\n"), "heading"),
    "h_indent": (_t("# Title\n\n  ## Indented\n"), "heading"),
    "h_spaces": (_t("#  Two spaces\n\n##No space\n\n## Closed  ##\n"), "heading"),
    "h_emph": (_t("# T\n\n**Emphasis as heading**\n\ntext\n"), "heading"),
    # --- lists ----------------------------------------------------------------
    "ul_star": (_t("* a\n* b\n"), "list"),
    "ul_dash": (_t("- a\n- b\n"), "list"),
    "ul_plus": (_t("+ a\n+ b\n"), "list"),
    "ul_mixed": (_t("* a\n- b\n+ c\n"), "list"),
    "ol_ordered": (_t("1. a\n2. b\n3. c\n"), "list"),
    "ol_ones": (_t("1. a\n1. b\n1. c\n"), "list"),
    "ol_zero": (_t("0. a\n1. b\n"), "list"),
    "ol_bad": (_t("1. a\n3. b\n"), "list"),
    "ul_nested_open": (_t("* a\n  * b\n    * c"), "list"),
    "ul_indent_bad": (_t("* a\n   * b\n* c\n"), "list"),
    "ul_indent3": (_t(" * a\n * b\n"), "list"),
    "ul_space2": (_t("*  a\n*  b\n"), "list"),
    "ol_space2": (_t("1.  a\n2.  b\n"), "list"),
    "list_no_blank": (_t("text\n* a\n* b\ntext\n"), "list"),
    "list_ends_open_para": (_t("- item\n  continued"), "list"),
    "ol_10": (_t("10. x\n"), "list"),
    # sibling sub-lists indented differently (MD005's fix path consults what it remembers of the
    # enclosing levels - seeded change m13o: a map of ordered levels that survived the previous file)
    "ul_sublists_uneven": (_t("# Nested\n\n- b\n  - c\n- d\n   - e\n"), "list"),
    "ol_sublists_uneven": (_t("1. b\n   1. c\n1. d\n    1. e\n"), "list"),
    "olul_sublists_uneven": (_t("1. b\n   - c\n1. d\n    - e\n"), "list"),
    "ulol_sublists_uneven": (_t("- b\n  1. c\n- d\n   1. e\n"), "list"),
    # --- fences / code ---------------------------------------------------------
    "fence_open_eof": (_t("# T\n\n```text\ncode line\n"), "fence"),
    "fence_tilde": (_t("# T\n\n~~~text\ncode\n~~~\n"), "fence"),
    "fence_back": (_t("# T\n\n```text\ncode\n```\n"), "fence"),
    "fence_nolang": (_t("# T\n\n```\ncode\n```\n"), "fence"),
    "fence_first_line": (_t("```text\ncode\n```\n\ntext\n"), "fence"),
    "fence_first_line_tilde": (_t("~~~\ncode\n~~~\n"), "fence"),
    "fence_no_blank": (_t("# T\n\ntext\n```text\ncode\n```\ntext\n"), "fence"),
    "code_indented": (_t("# T\n\ntext\n\n    indented code\n\ntext\n"), "fence"),
    "code_dollar": (_t("# T\n\n```text\n$ ls\n$ pwd\n```\n"), "fence"),
    "starts_plain": (_t("plain text that would be code inside an open fence\n"), "fence"),
    # --- block quotes ---------------------------------------------------------
    "bq_open": (_t("> quoted\n> more"), "quote"),
    "bq_blank_inside": (_t("> a\n\n> b\n"), "quote"),
    "bq_ends_blank": (_t("> a\n\n"), "quote"),
    "bq_starts": (_t("> b\n"), "quote"),
    "bq_two_spaces": (_t(">  two spaces\n"), "quote"),
    "bq_list": (_t("> - a\n>   - b\n>     text"), "quote"),
    # fix mode fails on this one by itself (the Markdown rebuilder raises IndexError with two
    # block quotes still open): a natural mid-rebuild failure for history scenarios
    "nat_regen_fail": (_t("> > [link]: /url\n>\n> * this is level 1\n>    * this is level 2\n"), "quote"),
    "bq_lazy": (_t("> a\nlazy\n"), "quote"),
    # --- whitespace counters ----------------------------------------------------
    "ws_trailing_eof": (_t("text   "), "ws"),
    "ws_trailing": (_t("text  \nmore   \nlast\n"), "ws"),
    "ws_tabs": (_t("a\tb\n\tc\n"), "ws"),
    "ws_blank_end": (_t("text\n\n\n"), "ws"),
    "ws_blank_start": (_t("\n\ntext\n"), "ws"),
    "ws_blank_mid": (_t("a\n\n\n\nb\n"), "ws"),
    "ws_no_eol": (_t("# T\n\nno newline at end"), "ws"),
    "ws_only_newlines": (_t("\n\n\n"), "ws"),
    "ws_long": (_t("# T\n\n" + LONG + " " + LONG + "\n"), "ws"),
    "ws_long_code": (_t("# T\n\n```text\n" + LONG + LONG + "\n```\n"), "ws"),
    # --- inline ------------------------------------------------------------------
    "in_emph_space": (_t("# T\n\n** bold ** and * it *\n"), "inline"),
    "in_code_space": (_t("# T\n\n` code ` and `` x``\n"), "inline"),
    "in_link_space": (_t("# T\n\n[ link ](/url)\n"), "inline"),
    "in_bare_url": (_t("# T\n\nhttp://example.com\n"), "inline"),
    "in_html": (_t("# T\n\n<b>inline</b>\n\n<div>\nblock\n"), "inline"),
    "html_h1_start": (_t("<h1 align=\"center\">Title</h1>\n\ntext\n"), "heading"),
    "html_h1_plain_start": (_t("<h1>Title</h1>\n\n## Sub\n"), "heading"),
    "html_div_start": (_t("<div>\nblock\n</div>\n\ntext\n"), "inline"),
    "html_comment_start": (_t("<!-- a comment -->\n\n# T\n"), "inline"),
    "in_html_open": (_t("<div>\nstill html"), "inline"),
    "in_image_noalt": (_t("# T\n\n![](/img.png)\n"), "inline"),
    "in_empty_link": (_t("# T\n\n[text]()\n\n[x](#)\n"), "inline"),
    "in_reversed": (_t("# T\n\n(text)[link]\n"), "inline"),
    "in_unclosed": (_t("# T\n\n*open and `tick and [bracket\n"), "inline"),
    "in_hr_dash": (_t("# T\n\n---\n\ntext\n"), "inline"),
    "in_hr_star": (_t("# T\n\n***\n\ntext\n"), "inline"),
    "in_hr_mixed": (_t("# T\n\n---\n\n***\n"), "inline"),
    # --- pragmas ----------------------------------------------------------------
    "pr_num_lines_eof": (_t("# T\n\ntext\n<!-- pyml disable-num-lines 99 md013,md009-->\n"), "pragma"),
    "pr_next_line_eof": (_t("# T\n\ntext\n<!-- pyml disable-next-line md013-->"), "pragma"),
    "pr_victim": (_t(LONG + " " + LONG + "  \n" + LONG + " " + LONG + "\n"), "pragma"),
    "pr_only": (_t("<!-- pyml disable-next-line md041-->\n"), "pragma"),
    "pr_bad": (_t("# T\n\n<!-- pyml disable-next-line nosuchrule-->\ntext\n<!-- pyml bogus-->\n"), "pragma"),
    "pr_bad_multi": (_t("# T\n\n<!-- pyml disable-next-line nosuch-a,nosuch-b,nosuch-c,nosuch-d,nosuch-e-->\ntext\n<!-- pyml disable-num-lines 2 bad-one,bad-two,bad-three,,bad-four-->\nmore\n"), "pragma"),
    "pr_good": (_t("# T\n\n<!-- pyml disable-next-line md013-->\n" + LONG + " " + LONG + "\n"), "pragma"),
    "pr_disable_enable": (_t("# T\n\n<!-- pyml disable md013-->\n" + LONG + " " + LONG + "\n<!-- pyml enable md013-->\n" + LONG + " " + LONG + "\n"), "pragma"),
    "pr_disable_open": (_t("# T\n\n<!-- pyml disable md013,md009-->\ntext\n"), "pragma"),
    # --- front matter ------------------------------------------------------------
    "fm_valid": (_t("---\ntitle: x\n---\n\n# T\n\ntext\n"), "frontmatter"),
    "fm_open": (_t("---\ntitle: x\n"), "frontmatter"),
    # --- structural edge documents -------------------------------------------------
    "edge_empty": (b"", "edge"),
    "edge_one_line": (_t("one line\n"), "edge"),
    "edge_one_line_noeol": (_t("one line"), "edge"),
    "edge_crlf": (b"# Title\r\n\r\ntext  \r\nmore\r\n", "edge"),
    "edge_crlf_noeol": (b"# Title\r\n\r\ntext\r\nlast", "edge"),
    "edge_lone_cr": (b"# Title\r\rtext\rmore\r", "edge"),
    "edge_mixed_eol": (b"# Title\n\r\ntext\rmore\n", "edge"),
    "edge_bom": (b"\xef\xbb\xbf# Title\n\ntext\n", "edge"),
    "edge_utf8_2": (_t("# Café\n\nnaïve text  \n"), "edge"),
    "edge_utf8_3": (_t("# 日本語\n\nテキスト\tです\n"), "edge"),
    "edge_utf8_4": (_t("# Emoji \U0001f600\n\n\U0001f680 rocket  \n"), "edge"),
    "edge_utf8_noeol": (_t("# Über\n\nstraße"), "edge"),
    "edge_nbsp": (_t("# T\n\nnon breaking separator\n"), "edge"),
    "edge_formfeed": (_t("# T\n\nform\x0cfeed and vt\x0b and fs\x1c here\n"), "edge"),
    "edge_seps_tail": (_t("# T\n\nnel\x85here and ff\x0chere\n\n\n\nlast line   "), "edge"),
    "edge_u2028": (_t("# T\n\nline\u2028separator and\u2029paragraph separator\ttab\n\ntrailing  \nend"), "edge"),
    "edge_fs_gs_rs": (_t("# T\n\nfs\x1cgs\x1drs\x1eus\x1f vt\x0b\n\n\n\nmore   \n"), "edge"),
    # > 8 KiB of multi-byte text; every line carries a failure whose column depends on
    # the number of characters before it, so one character lost or doubled anywhere
    # (e.g. at an 8192-byte read boundary) changes the report
    "edge_big_utf8_3": (_t("# Big\n\n" + "".join(("\u65e5\u672c\u8a9e\u30c6\u30ad\u30b9\u30c8" * 8) + "   \n" for i in range(160))), "edge"),
    "edge_big_utf8_2": (_t("# Big\n\n" + "".join(("\u00e9\u00e8\u00fc\u00f1" * 15) + "\tx\n" for i in range(200)) + "last   "), "edge"),
    "edge_big_utf8_4": (_t("# Big\n\n" + "".join(("\U0001f600\U0001f680" * 10) + " x" * (i % 3) + "   \n" for i in range(150))), "edge"),
    "edge_long_line": (_t("# T\n\n" + ("word " * 2000) + "\n"), "edge"),
    "edge_2000_lines": (_t("# Big\n\n" + "".join("line %d with trailing  \n" % i if i % 50 == 0 else "line %d\n" % i for i in range(2000))), "edge"),
    "edge_2000_fixable": (_t("# Big\n\n" + "".join("tab\there %d\n" % i for i in range(600))), "edge"),
    # --- probe markers -------------------------------------------------------------
    "vp_line": (_t("# T\n\nVP-FIXME\n\ntext\n"), "probe"),
    "vp_line_last": (_t("# T\n\ntext\nVP-FIXME"), "probe"),
    "vp_token": (_t("# vp-token-fixme\n\ntext\n"), "probe"),
    "vp_both": (_t("# vp-token-fixme\n\nVP-FIXME\nVP-FIXME\n"), "probe"),
    "vp_none": (_t("# T\n\nnothing for the probe\n"), "probe"),
    "vp_and_builtin": (_t("# vp-token-fixme\n\nVP-FIXME\ntab\there  \n\n\n\nend"), "probe"),
}

# documents that cannot be decoded as UTF-8 (C15 "undecodable file")
POISON = {
    "bad_utf8_start": b"\xff\xfe# Title\n\ntext\n",
    "bad_utf8_middle": b"# Title\n\ntext \xc3\x28 more\n\nend\n",
    "bad_utf8_end": b"# Title\n\ntext\n\xe2\x82",
    "bad_latin1": "# Café\n\nnaïve\n".encode("latin-1"),
}

# documents on which the pinned parser fails by itself ("natural" parser faults);
# only used where a parser failure is wanted, never where one would be judged.
NATURAL_PARSER_FAIL = {
    "natural_dash_tab": b"-\t",
    # each of these makes the pinned parser fail in a different internal state
    "natural_requeue_pending": b"* \n>[foo]:\n# Leftover heading\n",  # lines still queued for re-parsing
    "natural_lrd_in_quote": b"> [a]:\n>\n",  # after a pragma/definition line has been collected
    "natural_lrd_then_nesting": b"[foo]: /url\n\n>>- one\n>>\n  >  >   two",  # a link definition is already registered
    "natural_lrd_list_heading": b"[foo]:\n- ## Some text",
    "natural_pragma_then_fail": b"<!-- pyml disable-next-line md013,md009-->\n> [a]:\n>\n",
}

# --------------------------------------------------------------------------
# "first construct" followers (C13 only, never part of the sampled pool): tiny
# documents whose FIRST element consults a rule's per-file field before anything
# re-establishes it, so that a field left dirty by a predecessor that was cut
# short inside one element is observable in the very next document.
FIRST_CONSTRUCT = {
    "dollar": _t("$ ls\n$ pwd\n"),
    "dollar_one": _t("$ ls\n"),
    "code6": _t("      code\n"),
    "code4": _t("    code\n"),
    "code_punct": _t("    code.\n"),
    "fence_ws": _t("```text\n   x\n```\n"),
    "fence": _t("```text\ncode\n```\n"),
    "fence_dollar": _t("```sh\n$ ls\n```\n"),
    "fence_nolang": _t("```\ncode\n```\n"),
    "fence_tilde": _t("~~~text\ncode\n~~~\n"),
    "atx_open2": _t("#  Two\n"),
    "atx_open": _t("# T\n"),
    "atx_closed2": _t("# T  #\n"),
    "atx_closed": _t("# T #\n"),
    "atx_h2": _t("## Sub\n"),
    "atx_h3": _t("### Deep\n"),
    "atx_punct": _t("# T.\n"),
    "atx_indent": _t("  # T\n"),
    "atx_nospace": _t("#T\n"),
    "atx_dup": _t("# Same\n\n## Same\n"),
    "setext": _t("T\n=\n"),
    "setext2": _t("Sub\n---\n"),
    "setext_ws": _t("  T\n  =\n"),
    "setext_ws2": _t("T\n   ===\n"),
    "setext_punct": _t("T.\n==\n"),
    "text_punct": _t("Hello.\n"),
    "para": _t("plain\n"),
    "para_ws": _t("  plain\n more\n"),
    "para_two": _t("plain\n\n\nmore\n"),
    "blank_first": _t("\n\nplain\n"),
    "ol1": _t("1. a\n2. b\n"),
    "ol0": _t("0. a\n1. b\n"),
    "ol3": _t("3. a\n4. b\n"),
    "ol11": _t("1. a\n1. b\n"),
    "ol_single": _t("2. a\n"),
    "ol_indent": _t(" 1. a\n 2. b\n"),
    "ul": _t("- a\n- b\n"),
    "ul_star": _t("* a\n* b\n"),
    "ul_plus": _t("+ a\n"),
    "ul_nested": _t("- a\n  - b\n"),
    "ul_indent": _t(" - a\n - b\n"),
    "ul_wide": _t("-   a\n-   b\n"),
    "ul_text": _t("- a\ntext\n"),
    "html": _t("<div>\nx\n</div>\n"),
    "html_b": _t("<b>x</b>\n"),
    "html_h1": _t("<h1>x</h1>\n"),
    "html_inline": _t("text <span>x</span>\n"),
    "html_comment": _t("<!-- c -->\n"),
    "html_close": _t("</div>\n"),
    "emph_only": _t("**Bold line**\n"),
    "emph_only2": _t("*Em line*\n\ntext\n"),
    "emph_space": _t("a ** b ** c\n"),
    "emph_space2": _t("** b **\n"),
    "emph_space3": _t("x * y * z and _ q _\n"),
    "emph_close": _t("b ** c\n"),
    "emph_under": _t("__Bold__ and _em_\n"),
    "tab_fence": _t("```text\n\tcode\n```\n"),
    "tab_para": _t("a\tb\n"),
    "tab_indent": _t("\tcode\n"),
    "tab_second": _t("x\n\n```text\n\ty\n```\n\tz\n"),
    "bq": _t("> q\n"),
    "bq_lazy": _t("> q\nlazy\n"),
    "bq_two": _t("> q\n\n> r\n"),
    "bq_ws": _t(">  q\n"),
    "hr": _t("---\n"),
    "hr_star": _t("***\n"),
    "link": _t("[a](b)\n"),
    "link_ref": _t("[foo]\n"),
    "link_def": _t("[foo]: /url\n"),
    "bare_url": _t("see http://example.com now\n"),
    "image": _t("![](x.png)\n"),
    "names": _t("title and big links uses\n"),
    "long": _t("y" * 90 + "\n"),
    "long_code": _t("    " + "y" * 90 + "\n"),
    "long_heading": _t("# " + "y" * 90 + "\n"),
    "trailing_ws": _t("a  \nb \n"),
    "code_span": _t("a ` b ` c\n"),
    "no_eol": _t("plain"),
    "pragma": _t("<!-- pyml disable-next-line md041-->\nplain\n"),
    "table": _t("| a | b |\n|---|---|\n| 1 | 2 |\n"),
    "html_h1_img": _t("<h1 align=\"center\"><img src=\"x.png\"/></h1>\n"),
    "html_h1_img_alt": _t("<h1><img src=\"x.png\" alt=\"logo\"></h1>\n\ntext\n"),
    "fence_emph": _t("```text\na * b * c\n```\n"),
    "code_emph": _t("    a * b * c\n"),
    "html_emph": _t("<div>\na * b * c\n</div>\n"),
    "code_script": _t("    <script>x</script>\n"),
    "fence_script": _t("```text\n<script>\n```\n"),
    "html_script": _t("<div>\n<script>\n</div>\n"),
    "para_multi_ws": _t("a \n  b \n c\n"),
    "para_multi_lead": _t("a\n  b\n   c\n"),
    "bq_para_ws": _t("> a\n>  b\n"),
    "list_para_ws": _t("- a\n   b\n"),
    "empty": b"",
    "blank": b"\n",
}
