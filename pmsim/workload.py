"""Seeded workload composition shared by the checks."""

from . import carriers, corpus
from .corpus import b64, unb64
from .pool import HASH_CLASSES

NAMES = ["a.md", "b.md", "c.md", "d.md", "e.md", "k.md", "m.md", "z.md", "sub/a.md", "sub/n.md", "zz/q.md", "B.md", "_x.md", "0.md", "co$t.md", "two words.md"]

COPY_CHUNKS = [None, None, None, 1, 7, 64, 4096]


def draw_world(rng, copy_emulation=True):
    return {
        "dirkey": rng.choice([None, rng.randrange(1 << 30)]),
        "tmpkey": rng.randrange(1 << 30),
        "copy_chunk": rng.choice(COPY_CHUNKS) if copy_emulation else None,
        "cold": rng.random() < 0.15,
        "xdev": rng.random() < 0.3,
    }


def draw_class(rng, locales=("utf8",)):
    return [rng.choice(HASH_CLASSES), rng.choice(locales)]


def transform(rng, data):
    """Seeded composition on top of a pool document (never novel Markdown)."""
    roll = rng.random()
    if roll < 0.70:
        return data
    if roll < 0.80:  # toggle the final newline
        return data[:-1] if data.endswith(b"\n") else data + b"\n"
    if roll < 0.90 and b"\r" not in data:  # LF -> CRLF
        return data.replace(b"\n", b"\r\n")
    return data


def draw_docs(rng, count, need=None, prefer_group=None, allow_concat=True):
    """-> list of (pool name, bytes)"""
    docs = corpus.load()
    names = corpus.usable(docs, need=need, avoid=("hang", "parse_error", "undecodable", "slow", "fix_empties", "plugin_error"))
    chosen = []
    group_names = None
    if prefer_group:
        group_names = [n for n in names if docs[n].group == prefer_group]
    carrier_names = [n for n in names if n in carriers.CARRIERS]
    for _ in range(count):
        roll = rng.random()
        if group_names and roll < 0.6:
            name = rng.choice(group_names)
        elif roll < 0.45 and carrier_names:
            name = rng.choice(carrier_names)
        else:
            name = rng.choice(names)
        data = docs[name].data
        label = name
        if allow_concat and rng.random() < 0.08:
            other = rng.choice(names)
            data = data + (b"" if data.endswith(b"\n") or not data else b"\n") + docs[other].data
            label = name + "+" + other
        data = transform(rng, data)
        chosen.append((label, data))
    return chosen


def draw_group(rng):
    groups = sorted({doc.group for doc in corpus.load().values()})
    return rng.choice(groups)


def assign_names(rng, docs):
    """Give each document a file name; names decide processing order."""
    names = rng.sample(NAMES, len(docs))
    return {name: data for name, (_label, data) in zip(names, docs)}, {name: label for name, (label, _d) in zip(names, docs)}


def files_to_spec(mapping):
    return {name: {"b64": b64(data)} for name, data in mapping.items()}


def spec_to_files(spec):
    return {name: unb64(value["b64"]) for name, value in spec.items()}


PROBE_FILES = {"aaa000": "<P>/aaa000.py", "md016": "<P>/md016.py", "zzz999": "<P>/zzz999.py"}


def probe_flags(probe_ids):
    flags = []
    for pid in probe_ids:
        flags += ["--add-plugin", PROBE_FILES[pid]]
    return flags


def shrink_bytes_candidates(data, limit=24):
    """Line-wise reductions of a document (used by the shrinkers)."""
    lines = data.split(b"\n")
    out = []
    if len(lines) <= 1:
        if len(data) > 1:
            out.append(data[: len(data) // 2])
        return out
    n = len(lines)
    size = n // 2
    while size >= 1 and len(out) < limit:
        for start in range(0, n, size):
            candidate = lines[:start] + lines[start + size :]
            out.append(b"\n".join(candidate))
            if len(out) >= limit:
                break
        size //= 2
    return out


SETTINGS = [
    "plugins.md013.line_length=$#40",
    "plugins.md013.code_blocks=$!False",
    "plugins.md007.indent=$#4",
    "plugins.md003.style=atx",
    "plugins.md003.style=setext",
    "plugins.md004.style=asterisk",
    "plugins.md004.style=dash",
    "plugins.md029.style=one",
    "plugins.md029.style=ordered",
    "plugins.md046.style=fenced",
    "plugins.md046.style=indented",
    "plugins.md048.style=tilde",
    "plugins.md048.style=backtick",
    "plugins.md035.style=---",
    "plugins.md024.siblings_only=$!True",
    "plugins.md025.level=$#2",
    "plugins.md009.br_spaces=$#0",
    "plugins.md009.strict=$!True",
    "plugins.md010.code_blocks=$!False",
    "plugins.md012.maximum=$#2",
    "plugins.md026.punctuation=.,;",
    "plugins.md030.ul_single=$#2",
    "plugins.md044.names=ParserError,JavaScript,Title",
    "plugins.md041.level=$#2",
    "plugins.md033.allowed_elements=b,div",
    "extensions.front-matter.enabled=$!True",
    "extensions.markdown-strikethrough.enabled=$!True",
    "extensions.markdown-task-list-items.enabled=$!True",
    "extensions.markdown-extended-autolinks.enabled=$!True",
    "extensions.markdown-disallow-raw-html.enabled=$!True",
    "extensions.linter-pragmas.enabled=$!False",
]

DISABLE_POOL = ["md009", "md010", "md012", "md013", "md022", "md024", "md025", "md031", "md032", "md041", "md047", "md001", "md003", "md004", "md029", "md033"]
ENABLE_POOL = ["md002", "md006", "pml100", "pml101"]


def draw_config_flags(rng, max_settings=2, allow_scheme=True):
    """Global command-line flags that configure rules/extensions/scheme
    (no diagnostics flags)."""
    flags = []
    roll = rng.random()
    if roll < 0.35:
        flags += ["-d", ",".join(rng.sample(DISABLE_POOL, rng.randint(1, 4)))]
    elif roll < 0.50:
        flags += ["-e", ",".join(rng.sample(ENABLE_POOL, rng.randint(1, 3)))]
    elif roll < 0.58:
        flags += ["-d", ",".join(rng.sample(DISABLE_POOL, 2)), "-e", rng.choice(ENABLE_POOL)]
    for _ in range(rng.randint(0, max_settings)):
        if rng.random() < 0.6:
            flags += ["--set", rng.choice(SETTINGS)]
    scheme = "default"
    if allow_scheme and rng.random() < 0.3:
        scheme = rng.choice(["default", "minimal"])
        flags += ["--return-code-scheme", scheme]
    return flags, scheme
