"""Check driver: seeded scenario sweep, aggregation, shrinking, replay files,
known findings, evidence."""

import collections
import copy
import importlib
import json
import os
import random
import sys
import time

from . import pool
from .common import digest
from .pool import HarnessError, derive_seed

VERIF = pool.VERIF
# PMSIM_OUT redirects evidence and replay files (seeded-change experiments against a
# scratch tree must not overwrite the evidence of runs against /repo)
_OUT = os.environ.get("PMSIM_OUT") or VERIF
EVIDENCE_DIR = os.path.join(_OUT, "evidence")
REPLAY_DIR = os.path.join(_OUT, "replays")
KNOWN = os.path.join(VERIF, "KNOWN_FINDINGS.json")

CHECKS = ("C07", "C10", "C13", "C14", "C15", "C16", "C18", "C19")

REAL_COMPONENTS = [
    "pymarkdown (main, configuration, file discovery, plugin manager, all built-in rules, parser, both transformers, API) from /repo's working tree",
    "application_properties, argparse, logging, tempfile, glob, os, shutil (real copyfile unless world.copy_chunk), CPython io stack, kernel file system on a private scratch directory",
]
STUB_COMPONENTS = [
    "stdin source (seeded short reads)",
    "stdout/stderr sinks (captured)",
    "directory-listing order (sorted then seeded permutation of os.listdir/os.scandir results)",
    "temp-file name sequence (seeded)",
    "fault injector at audit events / rule callbacks / parser entry / provider reads",
    "os._exit(137) standing in for SIGKILL",
    "chunked copyfile emulation (only in worlds with copy_chunk)",
    "probe rule plugins /verif/plugins/{aaa000,md016,zzz999}.py",
]


def load_check(prop):
    return importlib.import_module("pmsim.checks.%s" % prop.lower())


def scenario_task(prop, seed, index, tier):
    module = load_check(prop)
    rng = random.Random(derive_seed(seed, prop, index))
    pool.get_exec()
    scenario = module.generate(rng, tier, index)
    scenario["prop"] = prop
    scenario["index"] = index
    client = pool.get_exec()
    before = client.executions
    outcome = module.evaluate(scenario)
    outcome["evals"] = client.executions - before  # real executions (cache hits are not counted)
    outcome["index"] = index
    if outcome.get("violations") or index < 2:
        outcome["scenario"] = scenario
    outcome["steps_total"] = client.steps
    client.steps = 0
    return outcome


def _same(violations, key):
    return [v for v in violations if v["key"] == key]


def shrink_task(prop, scenario, key, budget=120):
    """Greedy reduction while a violation with the same key persists."""
    module = load_check(prop)
    current = scenario
    attempts = 0
    accepted = 0
    progress = True
    while progress and attempts < budget:
        progress = False
        for candidate in module.reductions(current):
            if attempts >= budget:
                break
            attempts += 1
            try:
                outcome = module.evaluate(candidate)
            except HarnessError:
                continue
            if _same(outcome.get("violations", []), key):
                current = candidate
                accepted += 1
                progress = True
                break
    final = module.evaluate(current)
    hits = _same(final.get("violations", []), key)
    return {"scenario": current, "violation": hits[0] if hits else None, "attempts": attempts, "accepted": accepted}


def replay_task(prop, scenario):
    module = load_check(prop)
    first = module.evaluate(scenario)
    second = module.evaluate(scenario)
    return {"violations": first.get("violations", []), "stable": digest(first.get("violations")) == digest(second.get("violations")) and first.get("digests") == second.get("digests")}


def load_known():
    if not os.path.exists(KNOWN):
        return {}, []
    with open(KNOWN) as handle:
        doc = json.load(handle)
    known = {}
    for entry in doc.get("known", []):
        known[(entry["property"], entry["key"])] = entry
    return known, doc.get("fixed", [])


def run_check(prop, tier, seed, count=None, workers=None, wall_cap=None):
    module = load_check(prop)
    started = time.time()
    count = count or module.COUNTS[tier]
    wall_cap = wall_cap or module.WALL[tier]
    print("pmsim check %s tier=%s VERIF_SEED=%d scenarios=%d repo=%s" % (prop, tier, seed, count, pool.REPO), flush=True)
    tasks = [(prop, seed, index, tier) for index in range(count)]
    try:
        # PMSIM_STOP_AT_FIRST=1 (tools/ campaigns against changed trees only, never in a
        # registered command): stop submitting scenarios after the first violation
        first_hit = (lambda outcome: bool((outcome.get("ok") or {}).get("violations"))) if os.environ.get("PMSIM_STOP_AT_FIRST") else None
        results, capped = pool.run_parallel("pmsim.driver", "scenario_task", tasks, workers=workers, wall_cap=wall_cap, stop_when=first_hit)
    except HarnessError as this_error:
        print("HARNESS-ERROR %s" % this_error)
        return 2

    evaluations = 0
    steps = 0
    digests = set()
    stats = collections.Counter()
    faults = collections.defaultdict(lambda: [0, 0])
    samples = []
    harness_errors = []
    by_key = {}
    skipped = 0
    completed = 0
    for args, outcome in results:
        if "ok" not in outcome:
            harness_errors.append({"index": args[2], "error": outcome.get("harness", "?")[-1500:]})
            continue
        data = outcome["ok"]
        completed += 1
        evaluations += data.get("evals", 0)
        steps += data.get("steps_total", 0)
        for value, nontrivial in data.get("digests", []):
            if nontrivial:
                digests.add(value)
        stats.update(data.get("stats", {}))
        for kind, (planned, fired) in data.get("faults", {}).items():
            faults[kind][0] += planned
            faults[kind][1] += fired
        if data.get("skipped"):
            skipped += 1
        if data.get("scenario") is not None and len(samples) < 3 and not data.get("violations"):
            samples.append(_compact(data["scenario"]))
        for item in data.get("violations", []):
            by_key.setdefault(item["key"], []).append((data["index"], data.get("scenario"), item))

    known, fixed = load_known()
    exit_code = 0
    known_hits = []
    reported = []
    shrink_jobs = []
    for key in sorted(by_key):
        entries = sorted(by_key[key], key=lambda e: e[0])
        if (prop, key) in known:
            known_hits.append((key, len(entries)))
            print("KNOWN-FINDING: property=%s %s  [%d scenario(s) this run; key=%s]" % (prop, known[(prop, key)]["what"], len(entries), key))
            continue
        shrink_jobs.append((key, entries))
    # shrink up to 6 distinct unlisted violation keys (smallest index each)
    to_shrink = [("pmsim.driver", "shrink_task", (prop, entries[0][1], key)) for key, entries in shrink_jobs[:6]]
    if os.environ.get("PMSIM_STOP_AT_FIRST"):
        to_shrink = []
    shrunk = {}
    if to_shrink:
        try:
            shrink_results, _ = pool.run_parallel("pmsim.driver", "shrink_task", [job[2] for job in to_shrink], workers=workers, per_task_timeout=1800)
            for args, outcome in shrink_results:
                if "ok" in outcome:
                    shrunk[args[2]] = outcome["ok"]
        except HarnessError as this_error:
            harness_errors.append({"index": -1, "error": "shrink: %s" % this_error})
    os.makedirs(REPLAY_DIR, exist_ok=True)
    for key, entries in shrink_jobs:
        index, scenario, item = entries[0]
        small = shrunk.get(key)
        if small and small.get("violation"):
            scenario_out, item_out = small["scenario"], small["violation"]
            shrink_info = {"attempts": small["attempts"], "accepted": small["accepted"]}
        else:
            scenario_out, item_out, shrink_info = scenario, item, None
        doc = {
            "property": prop,
            "key": key,
            "clause": item_out["clause"],
            "detail": item_out["detail"],
            "seed": seed,
            "index": index,
            "tier": tier,
            "occurrences_this_run": len(entries),
            "shrink": shrink_info,
            "scenario": scenario_out,
        }
        path = os.path.join(REPLAY_DIR, "%s-%s.json" % (prop, digest([key, scenario_out])[:12]))
        with open(path, "w") as handle:
            json.dump(doc, handle, indent=1, sort_keys=True)
        print("VIOLATION property=%s replay=%s" % (prop, path))
        print("  clause=%s key=%s occurrences=%d" % (item_out["clause"], key, len(entries)))
        print("  detail=%s" % (json.dumps(item_out["detail"], sort_keys=True)[:1200],))
        reported.append({"key": key, "replay": path, "occurrences": len(entries)})
        exit_code = 1

    if harness_errors:
        for entry in harness_errors[:5]:
            print("HARNESS-ERROR scenario=%s %s" % (entry["index"], entry["error"]))
        if exit_code == 0:
            exit_code = 2
    if completed == 0 and exit_code == 0:
        print("HARNESS-ERROR no scenario completed")
        exit_code = 2
    if skipped > max(3, completed // 10) and exit_code == 0:
        print("HARNESS-ERROR %d of %d scenarios skipped (reference executions did not complete)" % (skipped, completed))
        exit_code = 2

    wall = time.time() - started
    zero_probes = sorted(name for name in getattr(module, "PROBES", []) if not stats.get(name))
    coverage = {
        "evaluations": evaluations,
        "distinct_nontrivial": len(digests),
        "rule": module.RULE,
        "samples": samples or [{"note": "no clean sample retained"}],
        "scenarios_completed": completed,
        "scenarios_planned": count,
        "stopped_by_wall_cap": bool(capped),
        "scenarios_per_hour": int(completed / wall * 3600) if wall > 0 else 0,
        "executions_per_hour": int(evaluations / wall * 3600) if wall > 0 else 0,
        "seeds": "scenario i uses PRNG seed SHA-256(VERIF_SEED|%s|i)[:8], i in [0,%d)" % (prop, count),
        "simulated_time": "the system under test reads no clock; progress is measured in steps (audited file-system events + rule callbacks + parser calls + provider reads)",
        "steps_executed": steps,
        "faults_planned_fired": {kind: {"planned": value[0], "fired": value[1]} for kind, value in sorted(faults.items())},
        "counters": {name: stats[name] for name in sorted(stats)},
        "probes_stuck_at_zero": zero_probes,
        "components_real": REAL_COMPONENTS,
        "components_stubbed": STUB_COMPONENTS,
        "harness_errors": len(harness_errors),
        "scenarios_skipped": skipped,
        "known_findings_matched": [{"key": key, "scenarios": number} for key, number in known_hits],
        "violations_reported": reported,
        "workers": workers or min(16, os.cpu_count() or 4),
    }
    evidence = {
        "property_id": prop,
        "tier": tier,
        "seed": seed,
        "level": module.LEVEL,
        "coverage": coverage,
        "assumptions": module.ASSUMPTIONS,
        "wall_s": round(wall, 2),
        "violations": len(reported),
    }
    os.makedirs(EVIDENCE_DIR, exist_ok=True)
    with open(os.path.join(EVIDENCE_DIR, "%s.json" % prop), "w") as handle:
        json.dump(evidence, handle, indent=1, sort_keys=True)
    print(
        "done %s: scenarios=%d executions=%d distinct_nontrivial=%d steps=%d violations=%d known=%d harness_errors=%d wall=%.1fs exit=%d"
        % (prop, completed, evaluations, len(digests), steps, len(reported), len(known_hits), len(harness_errors), wall, exit_code),
        flush=True,
    )
    if zero_probes:
        print("note: reach probes at zero: %s" % ", ".join(zero_probes))
    return exit_code


def _compact(scenario):
    """Readable form of a scenario for the evidence file."""
    value = copy.deepcopy(scenario)
    for name, spec in list((value.get("files") or {}).items()):
        if isinstance(spec, dict) and "b64" in spec:
            data = pool_unb64(spec["b64"])
            value["files"][name] = {"bytes": len(data), "head": data[:60].decode("utf-8", "replace")}
    return value


def pool_unb64(text):
    import base64

    return base64.b64decode(text.encode("ascii"))


def replay(path):
    with open(path) as handle:
        doc = json.load(handle)
    prop = doc["property"]
    results, _ = pool.run_parallel("pmsim.driver", "replay_task", [(prop, doc["scenario"])], workers=1)
    outcome = results[0][1]
    if "ok" not in outcome:
        print("HARNESS-ERROR %s" % outcome.get("harness"))
        return 2
    data = outcome["ok"]
    if not data["stable"]:
        print("HARNESS-ERROR replay diverged between two executions")
        return 2
    hits = [v for v in data["violations"] if v["key"] == doc["key"]]
    if hits:
        print("VIOLATION property=%s replay=%s" % (prop, path))
        print("  clause=%s key=%s" % (hits[0]["clause"], hits[0]["key"]))
        print("  detail=%s" % (json.dumps(hits[0]["detail"], sort_keys=True)[:2000],))
        return 1
    others = data["violations"]
    if others:
        print("replay: recorded violation key %s not reproduced; other keys: %s" % (doc["key"], sorted({v["key"] for v in others})))
    else:
        print("replay: no violation (property holds on this scenario with the current tree)")
    return 0


def main(argv):
    import argparse

    parser = argparse.ArgumentParser(prog="pmsim_cli.py")
    sub = parser.add_subparsers(dest="cmd")
    check = sub.add_parser("check")
    check.add_argument("prop")
    check.add_argument("--tier", default=os.environ.get("VERIF_TIER") or "quick", choices=["quick", "thorough"])
    check.add_argument("--count", type=int)
    check.add_argument("--workers", type=int)
    check.add_argument("--wall", type=int)
    rep = sub.add_parser("replay")
    rep.add_argument("path")
    sub.add_parser("selftest").add_argument("--size", default="short", choices=["short", "long"])
    sub.add_parser("corpus-tags")
    args = parser.parse_args(argv)
    seed_text = os.environ.get("VERIF_SEED", "").strip()
    try:
        seed = int(seed_text) if seed_text else 20261003
    except ValueError:
        seed = int.from_bytes(seed_text.encode()[:8], "big")
    if args.cmd == "check":
        if args.prop not in CHECKS:
            print("unknown or unclaimed property %s" % args.prop)
            return 2
        return run_check(args.prop, args.tier, seed, args.count, args.workers, args.wall)
    if args.cmd == "replay":
        return replay(args.path)
    if args.cmd == "selftest":
        from . import selftest

        return selftest.main(args.size, seed)
    if args.cmd == "corpus-tags":
        from . import corpus

        corpus.build_tags()
        return 0
    parser.print_help()
    return 2
