"""Shared pieces of the checks: output parsing, execution helpers, reference
executions (cached), violations."""

import hashlib
import json
import re

from .corpus import b64, unb64
from .pool import DEFAULT_CLASS, HarnessError, get_exec

FAIL_RE = re.compile(r"^(?P<file>.+?):(?P<line>\d+):(?P<col>\d+): (?P<rule>[A-Z]{2,3}\d{3}): (?P<rest>.*)$")
FIXED_RE = re.compile(r"^Fixed: (?P<file>.+)$")
ERR0_RE = re.compile(r"^(?P<file>.+?):0:0: (?P<msg>.*)$")
PRAGMA_RE = re.compile(r"^(?P<file>.+?):(?P<line>\d+):1: INLINE: (?P<msg>.*)$")

NEUTRAL_WORLD = {"dirkey": None, "tmpkey": 0, "copy_chunk": None, "cold": False, "xdev": False}

SYSTEM_ERROR_EXIT = {"default": 1, "minimal": 1}

EXIT_TABLE = {
    # copied from newdocs/src/user-guide.md ("Return Code Schemes"), not from the code
    "default": {"success": 0, "no_files": 1, "cmdline": 2, "fixed": 3, "failures": 1, "system": 1},
    "minimal": {"success": 0, "no_files": 0, "cmdline": 2, "fixed": 0, "failures": 0, "system": 1},
}


def digest(value):
    return hashlib.sha1(json.dumps(value, sort_keys=True, default=str).encode()).hexdigest()[:16]


def files_spec(mapping):
    """name -> bytes  ==>  request 'files' value"""
    return {name: {"b64": b64(data)} for name, data in mapping.items()}


def tree_bytes(reply, area="work"):
    return {name: (unb64(spec[0]) if spec[0] is not None else None) for name, spec in reply.get(area, {}).items()}


class OpView:
    """Structured view of one CLI operation's output."""

    def __init__(self, op_result):
        self.exit = op_result.get("exit")
        self.exc = op_result.get("exc")
        self.stdout = op_result.get("stdout", "")
        self.stderr = op_result.get("stderr", "")
        self.api = op_result.get("api")
        self.fail = {}  # file -> [raw line]
        self.fixed = []
        self.out_other = []
        self.err0 = {}  # file -> [msg]   (continue-on-error short form)
        self.pragma = {}  # file -> [raw line]
        self.err_other = []
        for line in self.stdout.split("\n"):
            if not line:
                continue
            match = FAIL_RE.match(line)
            if match:
                self.fail.setdefault(match.group("file"), []).append(line)
                continue
            match = FIXED_RE.match(line)
            if match:
                self.fixed.append(match.group("file"))
                continue
            self.out_other.append(line)
        for line in self.stderr.split("\n"):
            if not line:
                continue
            match = ERR0_RE.match(line)
            if match:
                self.err0.setdefault(match.group("file"), []).append(match.group("msg"))
                continue
            match = PRAGMA_RE.match(line)
            if match:
                self.pragma.setdefault(match.group("file"), []).append(line)
                continue
            self.err_other.append(line)

    def per_file(self, name):
        return {
            "fail": self.fail.get(name, []),
            "fixed": name in self.fixed,
            "err0": self.err0.get(name, []),
            "pragma": self.pragma.get(name, []),
        }

    def fail_tuples(self, name=None):
        """(line, col, rule, rest) for one file or all, file name dropped."""
        result = []
        for file_name, lines in self.fail.items():
            if name is not None and file_name != name:
                continue
            for line in lines:
                match = FAIL_RE.match(line)
                result.append((int(match.group("line")), int(match.group("col")), match.group("rule"), match.group("rest")))
        return result


def run(request, cls=DEFAULT_CLASS):
    reply = get_exec().run(request, cls)
    return reply


def done(reply):
    return reply.get("status") == "done" and reply.get("result") is not None


_REF_CACHE = {}


def cached_run(request, cls=DEFAULT_CLASS):
    """Reference executions are pure functions of (class, request) once
    determinism is established (self-test), so they are cached per worker."""
    key = digest([list(cls), request])
    hit = _REF_CACHE.get(key)
    if hit is not None:
        _REF_CACHE["hits"] = _REF_CACHE.get("hits", 0) + 1
        return hit
    reply = run(request, cls)
    if len(_REF_CACHE) > 20000:
        _REF_CACHE.clear()
    _REF_CACHE[key] = reply
    _REF_CACHE["misses"] = _REF_CACHE.get("misses", 0) + 1
    return reply


def solo_request(name, data, argv_prefix, command, extra_files=None, probes=None, command_flags=None, cpu=20):
    files = {name: data}
    for extra_name, extra_data in (extra_files or {}).items():
        files[extra_name] = extra_data
    op = {"kind": "cli", "argv": list(argv_prefix) + [command] + list(command_flags or []) + [name]}
    if probes:
        op["probes"] = probes
    return {"files": files_spec(files), "world": dict(NEUTRAL_WORLD), "cpu": cpu, "ops": [op]}


class Solo:
    """Result of processing one document alone, fault-free, in a pristine
    process and a neutral world: the reference execution."""

    def __init__(self, name, data, reply):
        self.ok = done(reply)
        self.name = name
        self.status = reply.get("status")
        if not self.ok:
            return
        self.view = OpView(reply["result"]["ops"][0])
        after = tree_bytes(reply).get(name)
        self.after = after
        self.changed = after != data
        self.per_file = self.view.per_file(name)
        self.exit = self.view.exit
        self.tmp_left = sorted(reply.get("tmp", {}))


def solo(name, data, argv_prefix, command, extra_files=None, probes=None, cls=DEFAULT_CLASS, command_flags=None):
    request = solo_request(name, data, argv_prefix, command, extra_files, probes, command_flags)
    return Solo(name, data, cached_run(request, cls))


_BUILTIN_IDS = {}


def builtin_rule_ids(cls=DEFAULT_CLASS):
    """Ids of the built-in rules, asked from the tool itself."""
    if "ids" not in _BUILTIN_IDS:
        reply = cached_run({"files": {}, "world": dict(NEUTRAL_WORLD), "ops": [{"kind": "cli", "argv": ["plugins", "list", "--all"]}]}, cls)
        if not done(reply):
            raise HarnessError("cannot list plugins")
        ids = []
        for line in reply["result"]["ops"][0]["stdout"].splitlines():
            match = re.match(r"^\s*([a-z]{2,3}\d{3})\s", line)
            if match:
                ids.append(match.group(1))
        if len(ids) < 10:
            raise HarnessError("plugin list unparsable: %r" % (reply["result"]["ops"][0],))
        _BUILTIN_IDS["ids"] = sorted(ids)
    return _BUILTIN_IDS["ids"]


def violation(clause, key, detail):
    return {"clause": clause, "key": key, "detail": detail}


def event_digest(reply):
    """Normalised digest of everything observable about one execution."""
    result = reply.get("result") or {}
    ops = [[o.get("exit"), o.get("exc"), o.get("stdout"), o.get("stderr"), o.get("api")] for o in result.get("ops", [])]
    # log files carry %(asctime)s time stamps (the only clock reading in the
    # system under test): their presence is part of the digest, their text is not
    work = {name: (spec if not name.endswith(".log") else "<log file>") for name, spec in (reply.get("work") or {}).items()}
    return digest([reply.get("status"), ops, result.get("log"), result.get("sites"), result.get("fired"), work, reply.get("tmp"), reply.get("work_dirs")])
