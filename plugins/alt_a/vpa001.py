"""pmsim helper rule: only there to put its directory on sys.path (see alt_a/vpt002.py)."""

from pymarkdown.plugin_manager.plugin_details import PluginDetailsV2
from pymarkdown.plugin_manager.rule_plugin import RulePlugin


class Vpa001(RulePlugin):
    def get_details(self):
        return PluginDetailsV2(
            plugin_name="vp-helper-a",
            plugin_id="VPA001",
            plugin_enabled_by_default=True,
            plugin_description="pmsim helper rule (directory alt_a)",
            plugin_version="0.1.0",
            plugin_url=None,
        )

    def next_line(self, context, line):
        if line == "VP-HELPER":
            self.report_next_line_error(context, 1)
