"""pmsim twin rule: the same module name exists in alt_a and alt_b with different behaviour,
so a run shows WHICH file was imported."""

from pymarkdown.plugin_manager.plugin_details import PluginDetailsV2
from pymarkdown.plugin_manager.rule_plugin import RulePlugin


class Vpt002(RulePlugin):
    def get_details(self):
        return PluginDetailsV2(
            plugin_name="vp-twin",
            plugin_id="VPT002",
            plugin_enabled_by_default=True,
            plugin_description="pmsim twin rule from directory alt_a",
            plugin_version="0.1.0",
            plugin_url=None,
        )

    def next_line(self, context, line):
        if line == "VP-TWIN":
            self.report_next_line_error(context, 1)
