"""pmsim probe rule 'zzz999' (see pmsim_probe_base.py)."""

from pmsim_probe_base import ProbeBase


class Zzz999(ProbeBase):
    PID = "zzz999"

    # the callbacks must be defined on the concrete class: pymarkdown only
    # dispatches callbacks that the plugin class itself overrides
    def starting_new_file(self):
        ProbeBase.starting_new_file(self)

    def next_token(self, context, token):
        ProbeBase.next_token(self, context, token)

    def next_line(self, context, line):
        ProbeBase.next_line(self, context, line)

    def completed_file(self, context):
        ProbeBase.completed_file(self, context)
