"""Probe rule plugins for pmsim (loaded through the documented --add-plugin /
add_plugin_path interface).  Behaviour is deliberately tiny and transparent:

  * a line that is exactly ``VP-FIXME``  -> reported (scan) / becomes ``VP-FIXED`` (fix)
  * a level-1 ATX heading whose text is ``vp-token-fixme`` -> reported (scan) /
    becomes a level-2 heading (fix, via register_fix_token_request)

Whether a probe is fix-capable, and at which fix level, comes from
``builtins.__pmsim_probe__[<id>]`` (set per operation by the simulator);
outside the simulator the probes are plain scan-only rules.
Recording and fault injection are done by the simulator's callback wrappers,
not here.
"""

import builtins

from pymarkdown.plugin_manager.plugin_details import PluginDetailsV2
from pymarkdown.plugin_manager.rule_plugin import RulePlugin

LINE_MARK = "VP-FIXME"
LINE_FIXED = "VP-FIXED"
TOKEN_MARK = "vp-token-fixme"
CHAIN = {"aaa000": ("VP-FIXME", "VP-STEP1"), "md016": ("VP-STEP1", "VP-STEP2"), "zzz999": ("VP-STEP2", "VP-FIXED")}


class ProbeBase(RulePlugin):
    PID = "zzz999"

    def __init__(self):
        super().__init__()
        self._pending_heading = None

    def _cfg(self):
        return getattr(builtins, "__pmsim_probe__", {}).get(self.PID, {})

    def get_details(self):
        cfg = self._cfg()
        return PluginDetailsV2(
            plugin_name="vp-probe-" + self.PID,
            plugin_id=self.PID.upper(),
            plugin_enabled_by_default=bool(cfg.get("enabled", True)),
            plugin_description="pmsim probe rule",
            plugin_version="0.1.0",
            plugin_url=None,
            plugin_supports_fix=bool(cfg.get("fix", False)),
            plugin_fix_level=int(cfg.get("level", 0)),
        )

    def _note(self, action):
        calls = getattr(builtins, "__pmsim_calls__", None)
        if calls is not None:
            calls.append([self.PID, action])

    def starting_new_file(self):
        self._note("starting_new_file")
        self._pending_heading = None

    def next_token(self, context, token):
        self._note("next_token")
        if getattr(token, "is_atx_heading", False):
            self._pending_heading = token if token.hash_count == 1 else None
            return
        heading = self._pending_heading
        self._pending_heading = None
        if heading is not None and getattr(token, "is_text", False) and token.token_text == TOKEN_MARK:
            if context.in_fix_mode:
                self.register_fix_token_request(context, heading, "next_token", "hash_count", 2)
            else:
                self.report_next_token_error(context, heading)

    def next_line(self, context, line):
        self._note("next_line")
        if self._cfg().get("chain"):
            # chained mode: three probes at one fix level whose fixes do not commute
            # (aaa000: FIXME -> STEP1, md016: STEP1 -> STEP2, zzz999: STEP2 -> FIXED)
            source, target = CHAIN[self.PID]
            if line == source:
                if context.in_fix_mode:
                    context.set_current_fix_line(target)
                else:
                    self.report_next_line_error(context, 1)
            return
        if line == LINE_MARK:
            if context.in_fix_mode:
                context.set_current_fix_line(LINE_FIXED)
            else:
                self.report_next_line_error(context, 1)

    def completed_file(self, context):
        self._note("completed_file")
        self._pending_heading = None
